/-
C09: AXI port - protocol-correct responses and memory semantics.
Theorems about Model/Axi.lean (burst-to-beat address generation, read-modify-write merging and granting,
reservation counters, arbitration), for every traffic and timing.
-/
import LitedramVerif.Model.Axi
namespace C09
open Axi

@[simp] theorem rmw_beq (a b : RmwFsm) : (a == b) = decide (a = b) := by cases a <;> cases b <;> rfl

/-! ### burst to beat: the address sequence of FIXED and INCR bursts -/

theorem wrap13_id (x : Int) (h1 : -4096 ≤ x) (h2 : x < 4096) : wrap13 x = x := by
  unfold wrap13; omega

/-- FIXED bursts: the offset stays 0, every beat carries the burst's address; the beat counter counts the beats and
returns to 0 after beat `len` -/
theorem b2b_fixed (aw : Nat) (b : B2B) (r : AxReq) (hb : r.burst = 0) (ho : b.offset = 0) :
    (b.step aw r true).offset = 0 ∧
    (b.step aw r true).count = (if b.count = r.len % 256 then 0 else (b.count + 1) % 256) ∧
    beatAddr aw b r = r.addr % 2 ^ aw := by
  refine ⟨?_, ?_, ?_⟩
  · simp [B2B.step, hb, ho]
  · simp [B2B.step]
  · simp only [beatAddr, ho, Int.add_zero]
    have : ((r.addr : Int) % ((2 ^ aw : Nat) : Int)) = ((r.addr % 2 ^ aw : Nat) : Int) := by
      exact (Int.natCast_emod r.addr (2 ^ aw)).symm
    rw [this, Int.toNat_natCast]

/-- INCR bursts that stay inside 4 KB: after `k` beats the offset is `k · 2^size`, so beat `k` addresses
`addr + k · 2^size` -/
theorem b2b_incr_step (aw : Nat) (b : B2B) (r : AxReq) (k : Nat) (hb : r.burst = 1)
    (hc : b.count = k) (ho : b.offset = ((k * 2 ^ (r.size % 8) : Nat) : Int))
    (hk : k < r.len % 256) (h4k : (r.len % 256 + 1) * 2 ^ (r.size % 8) ≤ 4096) :
    (b.step aw r true).count = k + 1 ∧ (b.step aw r true).offset = (((k + 1) * 2 ^ (r.size % 8) : Nat) : Int) := by
  have hne : ¬ k = r.len % 256 := by omega
  have hlen : r.len % 256 < 256 := Nat.mod_lt _ (by decide)
  have hlt : (k + 1) * 2 ^ (r.size % 8) < 4096 := by
    have : (k + 2) * 2 ^ (r.size % 8) ≤ (r.len % 256 + 1) * 2 ^ (r.size % 8) := Nat.mul_le_mul_right _ (by omega)
    have hp : 0 < 2 ^ (r.size % 8) := Nat.two_pow_pos _
    rw [Nat.add_mul] at this
    rw [Nat.add_mul] 
    omega
  have e : ((k * 2 ^ (r.size % 8) : Nat) : Int) + (2 : Int) ^ (r.size % 8) = (((k + 1) * 2 ^ (r.size % 8) : Nat) : Int) := by
    rw [Nat.add_mul, Nat.one_mul]; simp
  constructor
  · simp [B2B.step, hb, hc, hne]
    omega
  · have hS : ((2 : Int) ^ (r.size % 8)) = ((2 ^ (r.size % 8) : Nat) : Int) := by simp
    have hg : (0 : Int) ≤ (((k + 1) * 2 ^ (r.size % 8) : Nat) : Int) := Int.natCast_nonneg _
    have hg2 : (((k + 1) * 2 ^ (r.size % 8) : Nat) : Int) < ((4096 : Nat) : Int) := Int.ofNat_lt.mpr hlt
    simp only [B2B.step, hb, hc, hne, ho]
    simp only [Bool.not_true, Bool.false_eq_true, if_false, beq_iff_eq, hne, beq_self_eq_true, Bool.true_or, if_true,
      show ((1 : Nat) == 2) = false from rfl, Bool.false_and]
    rw [e, wrap13_id _ (by omega) (by omega)]

/-! ### burst to beat: WRAP bursts -/

/-- for a wrap container of `2^(j+s)` bytes and beats of `2^s` bytes the mask test of AXIBurst2Beat
(`(addr & wrap) == wrap` with `wrap = len << size`) fires exactly on the top beat of the container (finite table) -/
def WrapOK (j s : Nat) : Prop :=
  ∀ y, y < 2 ^ (j + s) → ((y &&& (2 ^ (j + s) - 2 ^ s)) == (2 ^ (j + s) - 2 ^ s)) = decide (2 ^ (j + s) - 2 ^ s ≤ y)

theorem wrapOK_all : ∀ j, j < 5 → ∀ s, s < 6 → WrapOK j s := by
  unfold WrapOK; decide +kernel

/-- the mask test on an address inside a container-aligned window only looks at the position inside the container -/
theorem and_mask_mod (x C m : Nat) (n : Nat) (hC : C = 2 ^ n) (hm : m < C) : x &&& m = (x % C) &&& m := by
  subst hC
  have h1 : (x &&& m) % 2 ^ n = x &&& m := Nat.mod_eq_of_lt (Nat.and_lt_two_pow x hm)
  rw [← h1, Nat.and_mod_two_pow, Nat.mod_eq_of_lt hm]

/-- **WRAP bursts** (2, 4, 8 or 16 beats of up to 32 bytes, start address aligned to the beat size): one beat of the
address generator.  `a0` = start position inside the container, `y` = position of the
current beat; the next position is `(y + S) mod C`. -/
theorem b2b_wrap_step (aw : Nat) (b : B2B) (r : AxReq) (j k : Nat)
    (hb : r.burst = 2) (hj : j < 5) (hj0 : 0 < j) (hs : r.size % 8 < 6) (hlen : r.len % 256 + 1 = 2 ^ j)
    (hal : r.addr % 2 ^ (r.size % 8) = 0) (haw : j + r.size % 8 ≤ aw) (hlt : r.addr < 2 ^ aw)
    (hc : b.count = k) (hk : k < r.len % 256)
    (ho : b.offset = (((r.addr % 2 ^ (j + r.size % 8) + k * 2 ^ (r.size % 8)) % 2 ^ (j + r.size % 8) : Nat) : Int)
                      - ((r.addr % 2 ^ (j + r.size % 8) : Nat) : Int)) :
    (b.step aw r true).count = k + 1 ∧
    (b.step aw r true).offset = (((r.addr % 2 ^ (j + r.size % 8) + (k + 1) * 2 ^ (r.size % 8)) % 2 ^ (j + r.size % 8) : Nat) : Int)
                      - ((r.addr % 2 ^ (j + r.size % 8) : Nat) : Int) := by
  -- names
  generalize hsdef : r.size % 8 = s at *
  generalize hLdef : r.len % 256 = L at *
  have hS : 0 < 2 ^ s := Nat.two_pow_pos _
  have hCdef : 2 ^ (j + s) = 2 ^ j * 2 ^ s := Nat.pow_add 2 j s
  have hjs : j + s ≤ 9 := by omega
  have hC512 : 2 ^ (j + s) ≤ 512 := by
    calc 2 ^ (j + s) ≤ 2 ^ 9 := Nat.pow_le_pow_right (by decide) hjs
      _ = 512 := by decide
  have hL : L = 2 ^ j - 1 := by omega
  have h2j : 1 ≤ 2 ^ j := Nat.two_pow_pos _
  have hLS : L * 2 ^ s = 2 ^ (j + s) - 2 ^ s := by
    rw [hL, hCdef, Nat.sub_mul, Nat.one_mul]
  have hSleC : 2 ^ s ≤ 2 ^ (j + s) := Nat.pow_le_pow_right (by decide) (by omega)
  have hwrapv : (L * 2 ^ s) % 4096 = 2 ^ (j + s) - 2 ^ s := by rw [hLS]; exact Nat.mod_eq_of_lt (by omega)
  have hdvd : 2 ^ s ∣ 2 ^ (j + s) := ⟨2 ^ j, by rw [hCdef, Nat.mul_comm]⟩
  generalize hCg : 2 ^ (j + s) = C at *
  generalize hSg : 2 ^ s = S at *
  generalize ha0 : r.addr % C = a0 at *
  have hCpos : 0 < C := by omega
  have ha0lt : a0 < C := by rw [← ha0]; exact Nat.mod_lt _ hCpos
  have ha0S : a0 % S = 0 := by rw [← ha0, Nat.mod_mod_of_dvd _ hdvd]; exact hal
  generalize hy : (a0 + k * S) % C = y at *
  have hylt : y < C := by rw [← hy]; exact Nat.mod_lt _ hCpos
  have hyS : y % S = 0 := by
    rw [← hy, Nat.mod_mod_of_dvd _ hdvd, Nat.add_mod, ha0S, Nat.mul_mod_left]; simp
  -- the next position
  have hynext : (a0 + (k + 1) * S) % C = (y + S) % C := by
    rw [← hy, Nat.mod_add_mod]; congr 1; rw [Nat.add_mul, Nat.one_mul]; omega
  -- the address of this beat
  obtain ⟨q, hq⟩ : ∃ q, r.addr = q * C + a0 := ⟨r.addr / C, by rw [← ha0, Nat.mul_comm]; exact (Nat.div_add_mod r.addr C).symm⟩
  have hqC : q * C + C ≤ 2 ^ aw := by
    obtain ⟨d, hd⟩ : ∃ d, aw = (j + s) + d := ⟨aw - (j + s), by omega⟩
    have hpw : 2 ^ aw = C * 2 ^ d := by rw [hd, Nat.pow_add, hCg]
    have hqlt : q < 2 ^ d := by
      rcases Nat.lt_or_ge q (2 ^ d) with h | h
      · exact h
      · have : C * 2 ^ d ≤ q * C := by rw [Nat.mul_comm q C]; exact Nat.mul_le_mul_left _ h
        omega
    have : (q + 1) * C ≤ 2 ^ d * C := Nat.mul_le_mul_right _ hqlt
    rw [Nat.add_mul, Nat.one_mul] at this
    rw [hpw, Nat.mul_comm C]; exact this
  have hbeat : beatAddr aw b r = q * C + y := by
    unfold beatAddr
    rw [ho, hq]
    have e : ((q * C + a0 : Nat) : Int) + (((y : Nat) : Int) - ((a0 : Nat) : Int)) = ((q * C + y : Nat) : Int) := by
      push_cast; omega
    rw [e, ← Int.natCast_emod, Int.toNat_natCast, Nat.mod_eq_of_lt (by omega)]
  have hand : (q * C + y) &&& (C - S) = y &&& (C - S) := by
    rw [and_mask_mod (q * C + y) C (C - S) (j + s) hCg.symm (by omega), Nat.mul_add_mod_self_right, Nat.mod_eq_of_lt hylt]
  have hwok := wrapOK_all j hj s hs y (by rw [hCg]; exact hylt)
  rw [hCg, hSg] at hwok
  have hne : ¬ k = L := by omega
  refine ⟨?_, ?_⟩
  · simp [B2B.step, hb, hc, hne, hLdef]; omega
  · simp only [B2B.step, Bool.not_true, Bool.false_eq_true, if_false, hb, hc, hne, hsdef, hLdef, hbeat, hSg, hwrapv, hand, hwok,
      beq_iff_eq, beq_self_eq_true, Bool.true_and, Bool.or_true, if_true]
    rw [hynext]
    by_cases htop : C - S ≤ y
    · -- top beat of the container: wrap around
      have hyeq : y = C - S := by
        -- y < C, y ≥ C - S, both multiples of S
        obtain ⟨t, ht⟩ : ∃ t, y = S * t := ⟨y / S, by have := Nat.div_add_mod y S; omega⟩
        obtain ⟨u, hu⟩ := hdvd
        have : t < u := by
          rcases Nat.lt_or_ge t u with h | h
          · exact h
          · have : S * u ≤ S * t := Nat.mul_le_mul_left _ h
            omega
        have : S * (t + 1) ≤ S * u := Nat.mul_le_mul_left _ (by omega)
        rw [Nat.mul_add, Nat.mul_one] at this
        omega
      have hmod0 : (y + S) % C = 0 := by
        have hsum : y + S = C := by omega
        rw [hsum, Nat.mod_self]
      simp only [htop, decide_true, Bool.and_true, beq_self_eq_true, if_true, hmod0]
      rw [ho, wrap13_id _ (by push_cast; omega) (by push_cast; omega)]
      push_cast; omega
    · have hlt2 : y + S < C := by
        obtain ⟨t, ht⟩ : ∃ t, y = S * t := ⟨y / S, by have := Nat.div_add_mod y S; omega⟩
        obtain ⟨u, hu⟩ := hdvd
        have htu : t + 1 < u := by
          rcases Nat.lt_or_ge (t + 1) u with h | h
          · exact h
          · have : S * u ≤ S * (t + 1) := Nat.mul_le_mul_left _ h
            rw [Nat.mul_add, Nat.mul_one] at this
            omega
        have : S * (t + 2) ≤ S * u := Nat.mul_le_mul_left _ (by omega)
        rw [Nat.mul_add] at this
        omega
      have hfalse : decide (C - S ≤ y) = false := by simpa using htop
      simp only [hfalse, Bool.and_false, Bool.false_eq_true, if_false, beq_self_eq_true, Bool.or_true, if_true]
      rw [ho, Nat.mod_eq_of_lt hlt2]
      have hSi : ((2 : Int) ^ s) = ((S : Nat) : Int) := by rw [← hSg]; simp
      rw [hSi, wrap13_id _ (by push_cast; omega) (by push_cast; omega)]
      push_cast; omega

/-- the native command address of a beat: byte address relative to the base, in words -/
theorem port_addr_def (c : Cfg) (a : Nat) : portAddr c a = ((a - c.base) / 2 ^ c.ashift) % 2 ^ c.paw := rfl

/-! ### read-modify-write: bytes -/

/-- **Partial strobes leave the other bytes intact.** Byte `b` of the merged word is the new byte where the strobe is
set and the byte read from memory where it is not. -/
theorem mergeBytes_byte (n old new strb b : Nat) (hb : b < n) :
    (mergeBytes n old new strb / 256 ^ b) % 256 =
      if strb.testBit b then (new / 256 ^ b) % 256 else (old / 256 ^ b) % 256 := by
  induction n generalizing old new strb b with
  | zero => omega
  | succ n ih =>
    simp only [mergeBytes]
    cases b with
    | zero =>
      have h0 : strb.testBit 0 = (strb % 2 == 1) := by
        rw [Nat.testBit_zero]
        cases Nat.mod_two_eq_zero_or_one strb with
        | inl h => simp [h]
        | inr h => simp [h]
      simp only [Nat.pow_zero, Nat.div_one, h0]
      by_cases hs : (strb % 2 == 1) = true
      · simp only [hs, if_true]; omega
      · simp only [hs]; simp
    | succ b =>
      have hsel : (if strb % 2 == 1 then new % 256 else old % 256) < 256 := by split <;> omega
      have e : ∀ x : Nat, x / 256 ^ (b + 1) = x / 256 / 256 ^ b := by
        intro x; rw [Nat.pow_succ, Nat.mul_comm, Nat.div_div_eq_div_mul]
      rw [e, Nat.add_mul_div_left _ _ (by decide : 0 < 256), Nat.div_eq_of_lt hsel, Nat.zero_add,
        ih (old / 256) (new / 256) (strb / 2) b (by omega), e new, e old, Nat.testBit_succ]

/-! ### read-modify-write: when it may start, and what it does -/

/-- **The RMW access starts only on a drained write path** (second C09 fix): the FSM leaves IDLE only when no command
is outstanding, the write buffer is empty, the address generator shows a valid beat, no read is in flight and a
response slot is free - so the beat on `axi.w` is the one `aw` points at. -/
theorem rmw_starts_only_when_drained (c : Cfg) (s : State) (i : In) (hr : c.rmw = true) (hi : s.rmwFsm = .idle) :
    (step c s i).1.rmwFsm =
      (if i.wValid && i.w.strb != 2 ^ c.nb - 1 && (s.rLevel == 0) &&
          (s.wLevel == 0 && Fifo.count s.wBuf == 0 && (!s.awBuf.q.isEmpty || !(s.awB.count == 0)) &&
            (!(s.awB.count == 0) || decide (s.wId.level + s.resp.level < c.wDepth)))
       then RmwFsm.read else RmwFsm.idle) := by
  simp only [step, hr, hi]
  by_cases hp : (i.wValid && i.w.strb != 2 ^ c.nb - 1) = true
  · simp [hp]
    grind
  · have hp' : (i.wValid && i.w.strb != 2 ^ c.nb - 1) = false := by simpa using hp
    simp [hp']

/-- while the RMW access runs the regular write and read paths issue nothing, and W beats are not taken into the
buffer except the merged one -/
theorem rmw_blocks_regular_paths (c : Cfg) (s : State) (i : In) (hr : c.rmw = true) (hi : s.rmwFsm ≠ .idle) :
    (step c s i).2.cmdValid = (s.rmwFsm == .read || (s.rmwFsm == .write && !s.rmwCmdDone)) ∧
    (step c s i).2.arReady = Fifo.sinkReady bufCfg s.arBuf false := by
  cases hf : s.rmwFsm <;> simp [hf] at hi <;> simp [step, hr, hf, bne]

/-- READ issues a read, WRITE a write, both at the address of the beat `aw` points at; MODIFY stores the merge of
the word read with the W beat under its strobes; WRITE queues the merged word with all strobes set and takes the
W beat exactly when the buffer accepts it -/
theorem rmw_sequence (c : Cfg) (s : State) (i : In) (hr : c.rmw = true) :
    (s.rmwFsm = .read → (step c s i).2.cmdValid = true ∧ (step c s i).2.cmdWe = false ∧
      (step c s i).2.cmdAddr = portAddr c (beatAddr c.aw s.awB ((s.awBuf.q.head?).getD default)) ∧
      (step c s i).1.rmwFsm = (if i.cmdReady then RmwFsm.modify else RmwFsm.read)) ∧
    (s.rmwFsm = .modify → (step c s i).2.cmdValid = false ∧ (step c s i).2.rdataReady = true ∧
      (i.rdataValid = true → (step c s i).1.rmwFsm = .write ∧
        (step c s i).1.rmwData = mergeBytes c.nb i.rdata i.w.data i.w.strb)) ∧
    (s.rmwFsm = .write → (step c s i).2.cmdValid = !s.rmwCmdDone ∧
      ((step c s i).2.cmdValid = true → (step c s i).2.cmdWe = true ∧
        (step c s i).2.cmdAddr = portAddr c (beatAddr c.aw s.awB ((s.awBuf.q.head?).getD default)))) := by
  refine ⟨?_, ?_, ?_⟩
  · intro h; simp [step, hr, h, bne]
  · intro h; simp [step, hr, h, bne]; intro hv; simp [hv]
  · intro h; simp [step, hr, h, bne]

/-! ### reservation counters and arbitration -/

/-- a read command is issued only while the read buffer has a free slot reserved for it, so the reservation counter
never exceeds the buffer depth - for every traffic and timing -/
theorem rlevel_step (c : Cfg) (s : State) (i : In) (h : s.rLevel ≤ c.rDepth) : (step c s i).1.rLevel ≤ c.rDepth := by
  have key : (step c s i).1.rLevel ≤ s.rLevel ∨ ((step c s i).1.rLevel = s.rLevel + 1 ∧ s.rLevel ≠ c.rDepth) := by
    simp only [step]
    cases c.rmw <;> cases hf : s.rmwFsm <;> simp [hf, bne] <;> grind
  rcases key with k | ⟨k1, k2⟩ <;> omega

def run (c : Cfg) : State → List In → State
  | s, [] => s
  | s, i :: is => run c (step c s i).1 is

theorem rlevel_bounded (c : Cfg) (ins : List In) : (run c (State.init c) ins).rLevel ≤ c.rDepth := by
  suffices ∀ s : State, s.rLevel ≤ c.rDepth → (run c s ins).rLevel ≤ c.rDepth from this _ (by simp [State.init])
  induction ins with
  | nil => intro s h; simpa [run] using h
  | cons i is ih => intro s h; exact ih _ (rlevel_step c s i h)

/-- entries held by a buffered SyncFIFO change by accepted pushes minus dequeues -/
theorem count_step_buffered (cfg : Fifo.Cfg) (hd : 2 ≤ cfg.depth) (hb : cfg.buffered = true) (s : Fifo.State WBeat)
    (sv : Bool) (sd : WBeat) (sr : Bool) :
    Fifo.count (Fifo.step cfg s sv sd sr) + (if Fifo.srcValid cfg s sv && sr then 1 else 0) =
      Fifo.count s + (if sv && Fifo.sinkReady cfg s sr then 1 else 0) := by
  have h0 : (cfg.depth == 0) = false := by simp; omega
  have h1 : (cfg.depth == 1) = false := by simp; omega
  have h2 : decide (cfg.depth ≥ 2) = true := by simpa using hd
  simp only [Fifo.step, Fifo.count, Fifo.srcValid, Fifo.sinkReady, h0, h1, h2, hb, Bool.false_eq_true, if_false,
    Bool.and_true, Bool.not_true, if_true]
  cases hq : s.q with
  | nil =>
    have hne0 : ¬ (0 = cfg.depth) := by omega
    cases ho : s.out <;> cases sv <;> cases sr <;> simp [hq, ho, hne0]
  | cons a t =>
    by_cases hfull : t.length + 1 = cfg.depth <;>
      cases ho : s.out <;> cases sv <;> cases sr <;> simp [hq, ho, hfull] <;> omega

/-- the write-side facts of one cycle, without read-modify-write -/
theorem wlevel_step (c : Cfg) (s : State) (i : In) (hn : c.rmw = false) (hd : 2 ≤ c.wDepth)
    (h : s.wLevel ≤ Fifo.count s.wBuf) : (step c s i).1.wLevel ≤ Fifo.count (step c s i).1.wBuf := by
  have hc := count_step_buffered (wCfg c) hd rfl s.wBuf i.wValid i.w
  -- name the three strobes of the cycle
  have key : ∃ (wq : Bool) (sr : Bool),
      (wq = true → s.wLevel < Fifo.count s.wBuf) ∧
      (step c s i).1.wBuf = Fifo.step (wCfg c) s.wBuf i.wValid i.w sr ∧
      (step c s i).1.wLevel = (if wq then (if !(Fifo.srcValid (wCfg c) s.wBuf i.wValid && sr) then s.wLevel + 1 else s.wLevel)
                               else if (Fifo.srcValid (wCfg c) s.wBuf i.wValid && sr) then s.wLevel - 1 else s.wLevel) ∧
      (sr = true → (s.wLevel != 0 || wq) = true) := by
    simp only [step, hn]
    refine ⟨_, _, ?_, rfl, rfl, ?_⟩
    · simp; grind
    · simp
  obtain ⟨wq, sr, h1, h2, h3, h4⟩ := key
  have hcs := hc sr
  rw [h2, h3]
  cases wq <;> cases hdq : (Fifo.srcValid (wCfg c) s.wBuf i.wValid && sr) <;> simp [hdq] at hcs h1 h4 ⊢ <;>
    (split at hcs <;> omega)

/-- **Commands never run ahead of the data they need** (regular datapath): from reset, for every traffic and timing,
the number of write commands issued whose data beat has not left yet never exceeds the beats held in the write
buffer - so every `wdata.ready` strobe of the controller finds its beat. -/
theorem wlevel_bounded (c : Cfg) (hn : c.rmw = false) (hd : 2 ≤ c.wDepth) (ins : List In) :
    (run c (State.init c) ins).wLevel ≤ Fifo.count (run c (State.init c) ins).wBuf := by
  suffices ∀ s : State, s.wLevel ≤ Fifo.count s.wBuf → (run c s ins).wLevel ≤ Fifo.count (run c s ins).wBuf from
    this _ (by simp [State.init, Fifo.count])
  induction ins with
  | nil => intro s h; simpa [run] using h
  | cons i is ih => intro s h; exact ih _ (wlevel_step c s i hn hd h)

/-- the two paths never issue a command in the same cycle; a command on the port comes from the granted path or from
the RMW FSM, and its direction says which -/
theorem command_source (c : Cfg) (s : State) (i : In) (hn : c.rmw = false) (hv : (step c s i).2.cmdValid = true) :
    ((step c s i).2.cmdWe = true ∧ s.grant = 0) ∨ ((step c s i).2.cmdWe = false ∧ s.grant = 1) := by
  simp only [step, hn] at hv ⊢
  simp at hv ⊢
  grind

/-- round-robin: with both paths requesting the grant alternates whenever the arbiter may move -/
theorem rr_alternates (g : Nat) (hg : g = 0 ∨ g = 1) : rrNext g true true = 1 - g := by
  rcases hg with h | h <;> simp [rrNext, h]

/-! ### non-vacuity -/
example : mergeBytes 4 0xAABBCCDD 0x11223344 0b0101 = 0xAA22CC44 := by decide
example : (B2B.step 12 {} ⟨0x100, 1, 3, 2, 5⟩ true).offset = 4 := by decide

end C09
