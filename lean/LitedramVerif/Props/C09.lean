/-
C09: AXI port - protocol-correct responses and memory semantics.
Theorems about Model/Axi.lean (burst-to-beat address generation, read-modify-write merging and granting,
reservation counters, arbitration), for every traffic and timing.
-/
import LitedramVerif.Model.Axi
namespace C09
open Axi

@[simp] theorem rmw_beq (a b : RmwFsm) : (a == b) = decide (a = b) := by cases a <;> cases b <;> rfl

/-! ### burst to beat: the address sequence of FIXED and INCR bursts -/

theorem wrap13_id (x : Int) (h1 : -4096 ≤ x) (h2 : x < 4096) : wrap13 x = x := by
  unfold wrap13; omega

/-- FIXED bursts: the offset stays 0, every beat carries the burst's address; the beat counter counts the beats and
returns to 0 after beat `len` -/
theorem b2b_fixed (aw : Nat) (b : B2B) (r : AxReq) (hb : r.burst = 0) (ho : b.offset = 0) :
    (b.step aw r true).offset = 0 ∧
    (b.step aw r true).count = (if b.count = r.len % 256 then 0 else (b.count + 1) % 256) ∧
    beatAddr aw b r = r.addr % 2 ^ aw := by
  refine ⟨?_, ?_, ?_⟩
  · simp [B2B.step, hb, ho]
  · simp [B2B.step]
  · simp only [beatAddr, ho, Int.add_zero]
    have : ((r.addr : Int) % ((2 ^ aw : Nat) : Int)) = ((r.addr % 2 ^ aw : Nat) : Int) := by
      exact (Int.natCast_emod r.addr (2 ^ aw)).symm
    rw [this, Int.toNat_natCast]

/-- INCR bursts that stay inside 4 KB: after `k` beats the offset is `k · 2^size`, so beat `k` addresses
`addr + k · 2^size` -/
theorem b2b_incr_step (aw : Nat) (b : B2B) (r : AxReq) (k : Nat) (hb : r.burst = 1)
    (hc : b.count = k) (ho : b.offset = ((k * 2 ^ (r.size % 8) : Nat) : Int))
    (hk : k < r.len % 256) (h4k : (r.len % 256 + 1) * 2 ^ (r.size % 8) ≤ 4096) :
    (b.step aw r true).count = k + 1 ∧ (b.step aw r true).offset = (((k + 1) * 2 ^ (r.size % 8) : Nat) : Int) := by
  have hne : ¬ k = r.len % 256 := by omega
  have hlen : r.len % 256 < 256 := Nat.mod_lt _ (by decide)
  have hlt : (k + 1) * 2 ^ (r.size % 8) < 4096 := by
    have : (k + 2) * 2 ^ (r.size % 8) ≤ (r.len % 256 + 1) * 2 ^ (r.size % 8) := Nat.mul_le_mul_right _ (by omega)
    have hp : 0 < 2 ^ (r.size % 8) := Nat.two_pow_pos _
    rw [Nat.add_mul] at this
    rw [Nat.add_mul] 
    omega
  have e : ((k * 2 ^ (r.size % 8) : Nat) : Int) + (2 : Int) ^ (r.size % 8) = (((k + 1) * 2 ^ (r.size % 8) : Nat) : Int) := by
    rw [Nat.add_mul, Nat.one_mul]; simp
  constructor
  · simp [B2B.step, hb, hc, hne]
    omega
  · have hS : ((2 : Int) ^ (r.size % 8)) = ((2 ^ (r.size % 8) : Nat) : Int) := by simp
    have hg : (0 : Int) ≤ (((k + 1) * 2 ^ (r.size % 8) : Nat) : Int) := Int.natCast_nonneg _
    have hg2 : (((k + 1) * 2 ^ (r.size % 8) : Nat) : Int) < ((4096 : Nat) : Int) := Int.ofNat_lt.mpr hlt
    simp only [B2B.step, hb, hc, hne, ho]
    simp only [Bool.not_true, Bool.false_eq_true, if_false, beq_iff_eq, hne, beq_self_eq_true, Bool.true_or, if_true,
      show ((1 : Nat) == 2) = false from rfl, Bool.false_and]
    rw [e, wrap13_id _ (by omega) (by omega)]

/-- the native command address of a beat: byte address relative to the base, in words -/
theorem port_addr_def (c : Cfg) (a : Nat) : portAddr c a = ((a - c.base) / 2 ^ c.ashift) % 2 ^ c.paw := rfl

/-! ### read-modify-write: bytes -/

/-- **Partial strobes leave the other bytes intact.** Byte `b` of the merged word is the new byte where the strobe is
set and the byte read from memory where it is not. -/
theorem mergeBytes_byte (n old new strb b : Nat) (hb : b < n) :
    (mergeBytes n old new strb / 256 ^ b) % 256 =
      if strb.testBit b then (new / 256 ^ b) % 256 else (old / 256 ^ b) % 256 := by
  induction n generalizing old new strb b with
  | zero => omega
  | succ n ih =>
    simp only [mergeBytes]
    cases b with
    | zero =>
      have h0 : strb.testBit 0 = (strb % 2 == 1) := by
        rw [Nat.testBit_zero]
        cases Nat.mod_two_eq_zero_or_one strb with
        | inl h => simp [h]
        | inr h => simp [h]
      simp only [Nat.pow_zero, Nat.div_one, h0]
      by_cases hs : (strb % 2 == 1) = true
      · simp only [hs, if_true]; omega
      · simp only [hs]; simp
    | succ b =>
      have hsel : (if strb % 2 == 1 then new % 256 else old % 256) < 256 := by split <;> omega
      have e : ∀ x : Nat, x / 256 ^ (b + 1) = x / 256 / 256 ^ b := by
        intro x; rw [Nat.pow_succ, Nat.mul_comm, Nat.div_div_eq_div_mul]
      rw [e, Nat.add_mul_div_left _ _ (by decide : 0 < 256), Nat.div_eq_of_lt hsel, Nat.zero_add,
        ih (old / 256) (new / 256) (strb / 2) b (by omega), e new, e old, Nat.testBit_succ]

/-! ### read-modify-write: when it may start, and what it does -/

/-- **The RMW access starts only on a drained write path** (second C09 fix): the FSM leaves IDLE only when no command
is outstanding, the write buffer is empty, the address generator shows a valid beat, no read is in flight and a
response slot is free - so the beat on `axi.w` is the one `aw` points at. -/
theorem rmw_starts_only_when_drained (c : Cfg) (s : State) (i : In) (hr : c.rmw = true) (hi : s.rmwFsm = .idle) :
    (step c s i).1.rmwFsm =
      (if i.wValid && i.w.strb != 2 ^ c.nb - 1 && (s.rLevel == 0) &&
          (s.wLevel == 0 && Fifo.count s.wBuf == 0 && (!s.awBuf.q.isEmpty || !(s.awB.count == 0)) &&
            (!(s.awB.count == 0) || decide (s.wId.level + s.resp.level < c.wDepth)))
       then RmwFsm.read else RmwFsm.idle) := by
  simp only [step, hr, hi]
  by_cases hp : (i.wValid && i.w.strb != 2 ^ c.nb - 1) = true
  · simp [hp]
    grind
  · have hp' : (i.wValid && i.w.strb != 2 ^ c.nb - 1) = false := by simpa using hp
    simp [hp']

/-- while the RMW access runs the regular write and read paths issue nothing, and W beats are not taken into the
buffer except the merged one -/
theorem rmw_blocks_regular_paths (c : Cfg) (s : State) (i : In) (hr : c.rmw = true) (hi : s.rmwFsm ≠ .idle) :
    (step c s i).2.cmdValid = (s.rmwFsm == .read || (s.rmwFsm == .write && !s.rmwCmdDone)) ∧
    (step c s i).2.arReady = Fifo.sinkReady bufCfg s.arBuf false := by
  cases hf : s.rmwFsm <;> simp [hf] at hi <;> simp [step, hr, hf, bne]

/-- READ issues a read, WRITE a write, both at the address of the beat `aw` points at; MODIFY stores the merge of
the word read with the W beat under its strobes; WRITE queues the merged word with all strobes set and takes the
W beat exactly when the buffer accepts it -/
theorem rmw_sequence (c : Cfg) (s : State) (i : In) (hr : c.rmw = true) :
    (s.rmwFsm = .read → (step c s i).2.cmdValid = true ∧ (step c s i).2.cmdWe = false ∧
      (step c s i).2.cmdAddr = portAddr c (beatAddr c.aw s.awB ((s.awBuf.q.head?).getD default)) ∧
      (step c s i).1.rmwFsm = (if i.cmdReady then RmwFsm.modify else RmwFsm.read)) ∧
    (s.rmwFsm = .modify → (step c s i).2.cmdValid = false ∧ (step c s i).2.rdataReady = true ∧
      (i.rdataValid = true → (step c s i).1.rmwFsm = .write ∧
        (step c s i).1.rmwData = mergeBytes c.nb i.rdata i.w.data i.w.strb)) ∧
    (s.rmwFsm = .write → (step c s i).2.cmdValid = !s.rmwCmdDone ∧
      ((step c s i).2.cmdValid = true → (step c s i).2.cmdWe = true ∧
        (step c s i).2.cmdAddr = portAddr c (beatAddr c.aw s.awB ((s.awBuf.q.head?).getD default)))) := by
  refine ⟨?_, ?_, ?_⟩
  · intro h; simp [step, hr, h, bne]
  · intro h; simp [step, hr, h, bne]; intro hv; simp [hv]
  · intro h; simp [step, hr, h, bne]

/-! ### reservation counters and arbitration -/

/-- a read command is issued only while the read buffer has a free slot reserved for it, so the reservation counter
never exceeds the buffer depth - for every traffic and timing -/
theorem rlevel_step (c : Cfg) (s : State) (i : In) (h : s.rLevel ≤ c.rDepth) : (step c s i).1.rLevel ≤ c.rDepth := by
  have key : (step c s i).1.rLevel ≤ s.rLevel ∨ ((step c s i).1.rLevel = s.rLevel + 1 ∧ s.rLevel ≠ c.rDepth) := by
    simp only [step]
    cases c.rmw <;> cases hf : s.rmwFsm <;> simp [hf, bne] <;> grind
  rcases key with k | ⟨k1, k2⟩ <;> omega

def run (c : Cfg) : State → List In → State
  | s, [] => s
  | s, i :: is => run c (step c s i).1 is

theorem rlevel_bounded (c : Cfg) (ins : List In) : (run c (State.init c) ins).rLevel ≤ c.rDepth := by
  suffices ∀ s : State, s.rLevel ≤ c.rDepth → (run c s ins).rLevel ≤ c.rDepth from this _ (by simp [State.init])
  induction ins with
  | nil => intro s h; simpa [run] using h
  | cons i is ih => intro s h; exact ih _ (rlevel_step c s i h)

/-- the two paths never issue a command in the same cycle; a command on the port comes from the granted path or from
the RMW FSM, and its direction says which -/
theorem command_source (c : Cfg) (s : State) (i : In) (hn : c.rmw = false) (hv : (step c s i).2.cmdValid = true) :
    ((step c s i).2.cmdWe = true ∧ s.grant = 0) ∨ ((step c s i).2.cmdWe = false ∧ s.grant = 1) := by
  simp only [step, hn] at hv ⊢
  simp at hv ⊢
  grind

/-- round-robin: with both paths requesting the grant alternates whenever the arbiter may move -/
theorem rr_alternates (g : Nat) (hg : g = 0 ∨ g = 1) : rrNext g true true = 1 - g := by
  rcases hg with h | h <;> simp [rrNext, h]

/-! ### non-vacuity -/
example : mergeBytes 4 0xAABBCCDD 0x11223344 0b0101 = 0xAA22CC44 := by decide
example : (B2B.step 12 {} ⟨0x100, 1, 3, 2, 5⟩ true).offset = 4 := by decide

end C09
