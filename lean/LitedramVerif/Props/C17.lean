/-
C17 — generated initialisation programs the DRAM consistently with the controller.
Every statement quantifies over the *generated* encoding tables of init.py (finite), so the kernel
decides it against what the source says now.
-/
import LitedramVerif.Model.InitSeq
import LitedramVerif.Model.Timing
import LitedramVerif.Spec.JedecMR
import LitedramVerif.Props.C16
namespace C17
open InitSeq JedecMR Generated

def keys (t : List (Nat × Nat)) : List Nat := t.map (·.1)

/-- **DDR3 MR0**: for every CL and WR the formatter accepts (and both DLL-reset values), the register
decodes (JEDEC) to burst length 8, that CAS latency, that write recovery and that DLL-reset flag, and
uses only A0..A12 (no field overflows into another or out of the register). -/
theorem ddr3_mr0_roundtrip :
    ∀ cl ∈ keys ddr3_cl_to_mr0, ∀ wr ∈ keys ddr3_wr_to_mr0, ∀ dll ∈ [0, 1],
      ∃ m, ddr3Mr0 8 cl wr dll = some m ∧ ddr3BL m = some 8 ∧ ddr3CL m = some cl ∧ ddr3WR m = some wr ∧
        ddr3DllReset m = (dll == 1) ∧ m < 2 ^ 13 ∧ bitsAt m 3 1 = 0 ∧ bitsAt m 7 1 = 0 := by
  decide +kernel

/-- **DDR3 MR2 / MR1**: CWL 5..12 and every Rtt_WR / Ron / Rtt_nom / TDQS code land in their own fields. -/
theorem ddr3_mr2_mr1_roundtrip :
    (∀ cwl ∈ List.range' 5 8, ∀ rw ∈ List.range 3,
      ddr3CWL (ddr3Mr2 cwl rw) = cwl ∧ ddr3RttWr (ddr3Mr2 cwl rw) = rw ∧ ddr3Mr2 cwl rw < 2 ^ 11) ∧
    (∀ ron ∈ List.range 2, ∀ rn ∈ List.range 6, ∀ td ∈ List.range 2,
      ddr3Ron (ddr3Mr1 ron rn td) = ron ∧ ddr3RttNom (ddr3Mr1 ron rn td) = rn ∧ ddr3Tdqs (ddr3Mr1 ron rn td) = td ∧
      bitsAt (ddr3Mr1 ron rn td) 7 1 = 0 ∧ bitsAt (ddr3Mr1 ron rn td) 0 1 = 0 ∧
      ddr3Special (ddr3Mr1 ron rn td) = 0) := by
  decide +kernel

/-- **DDR4 MR0** likewise (CL code split over A12,A6:A4,A2; WR code over A13,A11:A9). -/
theorem ddr4_mr0_roundtrip :
    ∀ cl ∈ keys ddr4_cl_to_mr0, ∀ wr ∈ keys ddr4_wr_to_mr0, ∀ dll ∈ [0, 1],
      ∃ m, ddr4Mr0 8 cl wr dll = some m ∧ ddr4BL m = some 8 ∧ ddr4CL m = some cl ∧ ddr4WR m = some wr ∧
        ddr4DllReset m = (dll == 1) ∧ m < 2 ^ 14 ∧ bitsAt m 3 1 = 0 ∧ bitsAt m 7 1 = 0 := by
  decide +kernel

theorem ddr4_mr2_mr1_mr3_mr6_roundtrip :
    (∀ cwl ∈ keys ddr4_cwl_to_mr2, ∀ rw ∈ List.range 5,
      ∃ m, ddr4Mr2 cwl rw = some m ∧ ddr4CWL m = some cwl ∧ ddr4RttWr m = rw ∧ m < 2 ^ 12) ∧
    (∀ ron ∈ List.range 2, ∀ rn ∈ List.range 8, ∀ td ∈ List.range 2,
      ddr4DllEnable (ddr4Mr1 1 ron rn td) = 1 ∧ ddr4Ron (ddr4Mr1 1 ron rn td) = ron ∧
      ddr4RttNom (ddr4Mr1 1 ron rn td) = rn ∧ ddr4Tdqs (ddr4Mr1 1 ron rn td) = td ∧
      ddr4Special (ddr4Mr1 1 ron rn td) = 0) ∧
    (∀ f ∈ List.range 3, ddr4FineRefresh (ddr4Mr3 f) = f) ∧
    (∀ t ∈ keys ddr4_tccd_to_mr6, ∃ m, ddr4Mr6 t = some m ∧ ddr4TccdL m = t) := by
  decide +kernel

/-- **SDR / DDR / LPDDR / DDR2**: `log2(bl) + (cl << 4)` decodes to BL and CL for every burst
length 1,2,4,8 and CL ≤ 7; the reset-DLL variant only adds A8; DDR2's constant `wr` field reads as
write recovery 3 clocks and leaves BL/CL intact. -/
theorem basic_mr_roundtrip :
    (∀ bl ∈ [1, 2, 4, 8], ∀ cl ∈ List.range 8,
      basicBL (mrBasic bl cl) = some bl ∧ basicCL (mrBasic bl cl) = cl ∧ basicDllReset (mrBasic bl cl) = false ∧
      basicBL (mrBasic bl cl + resetDll) = some bl ∧ basicCL (mrBasic bl cl + resetDll) = cl ∧
      basicDllReset (mrBasic bl cl + resetDll) = true) ∧
    (∀ cl ∈ List.range 8, basicBL (ddr2Mr cl) = some 4 ∧ basicCL (ddr2Mr cl) = cl ∧ ddr2WR (ddr2Mr cl) = 3 ∧
      basicCL (ddr2Mr cl + resetDll) = cl) := by
  decide +kernel

/-- **LPDDR4 MR1/MR2**: for every (RL, WL, nWR) row of the frequency table, `get_nwr` finds the row, the two
registers build without field overlap/overflow, and decode to BL16, that nWR, RL and WL (set A). -/
theorem lpddr4_mr_roundtrip :
    ∀ row ∈ lpddr4_freq,
      lpddr4Nwr row.1 row.2.1 = some row.2.2 ∧
      (∃ m1, lpddr4Mr 1 (fun v => [16, row.2.2, row.1, row.2.1].getD v 0) (fun _ _ => 0) = some m1 ∧
        lpddr4BL m1 = some 16 ∧ lpddr4NWR m1 = some row.2.2 ∧ m1 < 256) ∧
      (∃ m2, lpddr4Mr 2 (fun v => [16, row.2.2, row.1, row.2.1].getD v 0) (fun _ _ => 0) = some m2 ∧
        lpddr4RL m2 = some row.1 ∧ lpddr4WL m2 = some row.2.1 ∧ m2 < 256) := by
  decide +kernel

/-- **No KeyError for the default latencies**: every (CL, CWL) pair `get_default_cl_cwl` can return for
DDR3/DDR4 is encodable, and SDR/DDR2 CLs fit the 3-bit field. -/
theorem default_latencies_encodable :
    ∀ e ∈ default_cl_cwl,
      (e.1 = "DDR3" → e.2.2.1 ∈ keys ddr3_cl_to_mr0 ∧ 5 ≤ e.2.2.2 ∧ e.2.2.2 ≤ 12) ∧
      (e.1 = "DDR4" → e.2.2.1 ∈ keys ddr4_cl_to_mr0 ∧ e.2.2.2 ∈ keys ddr4_cwl_to_mr2) ∧
      ((e.1 = "SDR" ∨ e.1 = "DDR2") → e.2.2.1 < 8) := by
  decide +kernel

/-! ### write recovery (known finding `c17-wr-from-twtr`) -/

/-- what the property asks of the programmed WR (in DRAM clocks): it covers the datasheet tWR
(`wr · tCK ≥ tWR`, i.e. `wr·den·1e9 ≥ num·f·n`) and does not exceed what the controller waits
(`wr ≤ tWR_cycles · n`). -/
abbrev WrOk (wr : Nat) (tWRns : Timing.Q) (tWRcycles : Nat) (c : Timing.Clk) : Prop :=
  tWRns.num * c.f * c.n ≤ wr * (tWRns.den * 10 ^ 9) ∧ wr ≤ tWRcycles * c.n

/-- **Partial**: the property holds whenever the value fed to the formatter is at least the datasheet
requirement and at most the controller's wait — which is what `max(tWR_cycles·n, 5)` would give … -/
theorem wr_ok_of_tWR_partial (tWRns : Timing.Q) (c : Timing.Clk) (hd : 0 < tWRns.den) (hn : 0 < c.n)
    (h5 : 5 ≤ Timing.nsToCyclesMargin tWRns c * c.n) :
    WrOk (max (Timing.nsToCyclesMargin tWRns c * c.n) 5) tWRns (Timing.nsToCyclesMargin tWRns c) c := by
  have hmax : max (Timing.nsToCyclesMargin tWRns c * c.n) 5 = Timing.nsToCyclesMargin tWRns c * c.n := Nat.max_eq_left h5
  rw [hmax]
  refine ⟨?_, Nat.le_refl _⟩
  have h := C16.margin_covers_worst_phase tWRns c hd hn
  exact Nat.le_trans (Nat.le_add_right _ _) h

/-- … but the code derives WR from **tWTR**: counter-example on the model.  DDR3 (tWR = 15 ns,
tWTR = max(4 ck, 7.5 ns)) at 150 MHz, 1:4: the controller's tWTR is 2 cycles, so WR = max(2·4, 5) = 8
clocks = 13.3 ns < 15 ns. -/
theorem wr_from_twtr_counterexample :
    let c : Timing.Clk := ⟨150000000, 4⟩
    let tWTR := Timing.minCycles ⟨⟨4, 1⟩, ⟨75, 10⟩⟩ c
    let tWR := Timing.minCycles ⟨Timing.Q.zero, ⟨15, 1⟩⟩ c
    tWTR = 2 ∧ ddr3Wr tWTR 4 = 8 ∧ ¬ WrOk (ddr3Wr tWTR 4) ⟨15, 1⟩ tWR c := by
  decide +kernel

/-- and values of `tWTR·nphases` that are not keys of the table make the generator raise (`none`):
e.g. tWTR = 3 cycles at 1:2 gives 6 (fine) but tWTR = 3 at 1:4 gives 12 (fine), 9/11/13/15 never
appear in the DDR3 table. -/
theorem ddr3_wr_keyerror_example : ddr3Mr0 8 6 (ddr3Wr 9 1) 1 = none ∧ ddr4Mr0 8 11 (ddr4Wr 11 1) 1 = none := by
  decide +kernel

end C17
