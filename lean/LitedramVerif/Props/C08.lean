/-
C08: clock-domain-crossing ports preserve commands, data and order.
The asynchronous FIFO of Model/AsyncFifo.lean, for EVERY sequence of instants at which the write clock, the read clock
or both rise (= every frequency ratio and phase relation) and every valid/ready behaviour on both sides.
-/
import LitedramVerif.Model.AsyncFifo
namespace C08
open AsyncFifo

/-! ### what the proof needs from the gray code (finite tables, checked per depth) -/

def writableG (k wg rg : Nat) : Bool :=
  (wg.testBit k == rg.testBit k) || (wg.testBit (k - 1) == rg.testBit (k - 1)) || (wg % 2 ^ (k - 1) != rg % 2 ^ (k - 1))

theorem writable_eq (k : Nat) (s : State) : writable k s = writableG k s.wgray s.r2w1 := rfl

/-- the two facts about `gray` on `k+1`-bit pointers: it is injective, and the full test fires exactly when the
pointers are `depth` apart -/
def GrayOK (k : Nat) : Prop :=
  (∀ a, a < 2 ^ (k + 1) → ∀ b, b < 2 ^ (k + 1) → (gray a = gray b ↔ a = b)) ∧
  (∀ a, a < 2 ^ (k + 1) → ∀ b, b < 2 ^ (k + 1) → (a + 2 ^ (k + 1) - b) % 2 ^ (k + 1) ≤ 2 ^ k →
    writableG k (gray a) (gray b) = decide ((a + 2 ^ (k + 1) - b) % 2 ^ (k + 1) ≠ 2 ^ k))

theorem grayOK_1 : GrayOK 1 := by unfold GrayOK; decide +kernel
theorem grayOK_2 : GrayOK 2 := by unfold GrayOK; decide +kernel
theorem grayOK_3 : GrayOK 3 := by unfold GrayOK; decide +kernel
theorem grayOK_4 : GrayOK 4 := by unfold GrayOK; decide +kernel
theorem grayOK_5 : GrayOK 5 := by unfold GrayOK; decide +kernel

/-! ### pointer arithmetic -/

theorem sub_mod_small (W R M D : Nat) (hM : 0 < M) (hRW : R ≤ W) (hd : W - R ≤ D) (hDM : D < M) :
    (W % M + M - R % M) % M = W - R := by
  obtain ⟨off, rfl⟩ : ∃ off, W = R + off := ⟨W - R, by omega⟩
  have hoff : off < M := by omega
  rw [Nat.add_mod R off M]
  have hb : R % M < M := Nat.mod_lt _ hM
  rw [Nat.mod_eq_of_lt hoff]
  generalize R % M = b at *
  have e : R + off - R = off := by omega
  rw [e]
  by_cases h : b + off < M
  · rw [Nat.mod_eq_of_lt h]
    have : b + off + M - b = off + M := by omega
    rw [this, Nat.add_mod_right, Nat.mod_eq_of_lt hoff]
  · have h1 : (b + off) % M = b + off - M := by
      rw [Nat.mod_eq_sub_mod (Nat.le_of_not_lt h)]; exact Nat.mod_eq_of_lt (by omega)
    rw [h1]
    have : b + off - M + M - b = off := by omega
    rw [this, Nat.mod_eq_of_lt hoff]

theorem slot_distinct (i W D : Nat) (hD : 0 < D) (h1 : i < W) (h2 : W - i < D) : i % D ≠ W % D := by
  intro h
  obtain ⟨d, rfl⟩ : ∃ d, W = i + d := ⟨W - i, by omega⟩
  have hd : d < D := by omega
  have hd0 : 0 < d := by omega
  rw [Nat.add_mod i d D, Nat.mod_eq_of_lt hd] at h
  have hx : i % D < D := Nat.mod_lt _ hD
  generalize i % D = x at *
  by_cases hlt : x + d < D
  · rw [Nat.mod_eq_of_lt hlt] at h; omega
  · rw [Nat.mod_eq_sub_mod (Nat.le_of_not_lt hlt), Nat.mod_eq_of_lt (by omega)] at h; omega

/-! ### the invariant: what the registers mean, in terms of the history -/

/-- the history: every word ever written (`ws`), how many were read (`R`), and the read / write counts as they
were when the synchroniser stages sampled them -/
structure Ghost where
  ws : List Nat := []
  R : Nat := 0
  R0 : Nat := 0
  R1 : Nat := 0
  W0 : Nat := 0
  W1 : Nat := 0

def Inv (k : Nat) (s : State) (g : Ghost) : Prop :=
  let M := 2 ^ (k + 1)
  let D := 2 ^ k
  s.wbin = g.ws.length % M ∧ s.wgray = gray s.wbin ∧ s.rbin = g.R % M ∧ s.rgray = gray s.rbin ∧
  s.r2w0 = gray (g.R0 % M) ∧ s.r2w1 = gray (g.R1 % M) ∧ s.w2r0 = gray (g.W0 % M) ∧ s.w2r1 = gray (g.W1 % M) ∧
  -- the synchronised copies lag behind, the reader never passes what it has seen written, the writer never gets
  -- more than `depth` ahead of what it has seen read
  g.R1 ≤ g.R0 ∧ g.R0 ≤ g.R ∧ g.R ≤ g.W1 ∧ g.W1 ≤ g.W0 ∧ g.W0 ≤ g.ws.length ∧ g.ws.length ≤ g.R1 + D ∧
  s.mem.length = D ∧
  (∀ i, g.R ≤ i → i < g.ws.length → s.mem.getD (i % D) 0 = g.ws.getD i 0) ∧
  (g.R < g.W1 → s.dout = g.ws.getD g.R 0)

theorem inv_init (k : Nat) : Inv k (State.init k) {} := by
  simp [Inv, State.init, gray]

/-- `writable` means: fewer than `depth` words written beyond what the writer has seen read -/
theorem writable_iff (k : Nat) (hg : GrayOK k) (s : State) (g : Ghost) (h : Inv k s g) :
    writable k s = decide (g.ws.length - g.R1 < 2 ^ k) := by
  obtain ⟨hw, hwg, _, _, _, hr1, _, _, h1, h2, h3, h4, h5, h6, _⟩ := h
  have hM : 0 < 2 ^ (k + 1) := Nat.two_pow_pos _
  have hDM : 2 ^ k < 2 ^ (k + 1) := Nat.pow_lt_pow_right (by decide) (by omega)
  have hle : g.R1 ≤ g.ws.length := by omega
  have hd : g.ws.length - g.R1 ≤ 2 ^ k := by omega
  have key := sub_mod_small g.ws.length g.R1 (2 ^ (k + 1)) (2 ^ k) hM hle hd hDM
  rw [writable_eq, hwg, hw, hr1,
    hg.2 _ (Nat.mod_lt _ hM) _ (Nat.mod_lt _ hM) (by rw [key]; exact hd), key]
  by_cases hx : g.ws.length - g.R1 = 2 ^ k <;> simp [hx] <;> omega

/-- `readable` means: the reader has seen more written than it has read -/
theorem readable_iff (k : Nat) (hg : GrayOK k) (s : State) (g : Ghost) (h : Inv k s g) :
    readable s = decide (g.R < g.W1) := by
  obtain ⟨_, _, hr, hrg, _, _, _, hw1, h1, h2, h3, h4, h5, h6, _⟩ := h
  have hM : 0 < 2 ^ (k + 1) := Nat.two_pow_pos _
  have hDM : 2 ^ k < 2 ^ (k + 1) := Nat.pow_lt_pow_right (by decide) (by omega)
  have hiff := hg.1 _ (Nat.mod_lt g.R hM) _ (Nat.mod_lt g.W1 hM)
  unfold readable
  rw [hrg, hr, hw1]
  by_cases hlt : g.R < g.W1
  · have hne : g.R % 2 ^ (k + 1) ≠ g.W1 % 2 ^ (k + 1) := by
      intro he
      have key := sub_mod_small g.W1 g.R (2 ^ (k + 1)) (2 ^ k) hM (by omega) (by omega) hDM
      rw [he] at key
      have : (g.W1 % 2 ^ (k + 1) + 2 ^ (k + 1) - g.W1 % 2 ^ (k + 1)) % 2 ^ (k + 1) = 0 := by
        have hb : g.W1 % 2 ^ (k + 1) < 2 ^ (k + 1) := Nat.mod_lt _ hM
        have : g.W1 % 2 ^ (k + 1) + 2 ^ (k + 1) - g.W1 % 2 ^ (k + 1) = 2 ^ (k + 1) := by omega
        rw [this, Nat.mod_self]
      omega
    have : gray (g.R % 2 ^ (k + 1)) ≠ gray (g.W1 % 2 ^ (k + 1)) := fun he => hne (hiff.mp he)
    simp [hlt, this]
  · have heq : g.R = g.W1 := by omega
    simp [heq]

/-! ### one instant preserves the invariant, whichever clocks rise -/

def wAcc (k : Nat) (s : State) (w we : Bool) : Bool := w && writable k s && we
def rAcc (s : State) (r re : Bool) : Bool := r && readable s && re

def Ghost.next (g : Ghost) (w r wacc racc : Bool) (din : Nat) : Ghost :=
  { ws := if wacc then g.ws ++ [din] else g.ws
    R := if racc then g.R + 1 else g.R
    R1 := if w then g.R0 else g.R1
    R0 := if w then g.R else g.R0
    W1 := if r then g.W0 else g.W1
    W0 := if r then g.ws.length else g.W0 }

theorem mod_succ_mod (a M : Nat) : (a % M + 1) % M = (a + 1) % M := by
  rw [Nat.add_mod, Nat.mod_mod, ← Nat.add_mod]

theorem tick_inv (k : Nat) (hg : GrayOK k) (s : State) (g : Ghost) (w r we re : Bool) (din : Nat) (h : Inv k s g) :
    Inv k (tick k s w r we din re) (g.next w r (wAcc k s w we) (rAcc s r re) din) ∧
    (rAcc s r re = true → s.dout = g.ws.getD g.R 0) := by
  have hwr := writable_iff k hg s g h
  have hrd := readable_iff k hg s g h
  obtain ⟨hw, hwg, hr, hrg, h20, h21, h30, h31, c1, c2, c3, c4, c5, c6, hlen, hmem, hdout⟩ := h
  have hD : 0 < 2 ^ k := Nat.two_pow_pos _
  have hdvd : 2 ^ k ∣ 2 ^ (k + 1) := ⟨2, by rw [Nat.pow_succ]⟩
  -- what the accept signals mean
  have hwa : wAcc k s w we = true → g.ws.length - g.R1 < 2 ^ k := by
    intro ha; simp only [wAcc, Bool.and_eq_true] at ha; simpa [hwr] using ha.1.2
  have hra : rAcc s r re = true → g.R < g.W1 := by
    intro ha; simp only [rAcc, Bool.and_eq_true] at ha; simpa [hrd] using ha.1.2
  refine ⟨?_, fun ha => hdout (hra ha)⟩
  -- abbreviations for the two accepts
  generalize hwacc : wAcc k s w we = wa at *
  generalize hracc : rAcc s r re = ra at *
  have hwa' : wa = true → w = true := by
    intro h; subst h; simp only [wAcc, Bool.and_eq_true] at hwacc; exact hwacc.1.1
  have hra' : ra = true → r = true := by
    intro h; subst h; simp only [rAcc, Bool.and_eq_true] at hracc; exact hracc.1.1
  -- the registers after the instant
  have e_wbin : (tick k s w r we din re).wbin = if wa then (s.wbin + 1) % 2 ^ (k + 1) else s.wbin := by
    subst hwacc; cases w <;> simp [tick, tickW, wAcc]
  have e_wgray : (tick k s w r we din re).wgray = gray (tick k s w r we din re).wbin := by
    cases w <;> simp [tick, tickW, hwg]
  have e_rbin : (tick k s w r we din re).rbin = if ra then (s.rbin + 1) % 2 ^ (k + 1) else s.rbin := by
    subst hracc; cases r <;> simp [tick, tickR, rAcc]
  have e_rgray : (tick k s w r we din re).rgray = gray (tick k s w r we din re).rbin := by
    cases r <;> simp [tick, tickR, hrg]
  have e_r2w0 : (tick k s w r we din re).r2w0 = if w then s.rgray else s.r2w0 := by cases w <;> simp [tick, tickW]
  have e_r2w1 : (tick k s w r we din re).r2w1 = if w then s.r2w0 else s.r2w1 := by cases w <;> simp [tick, tickW]
  have e_w2r0 : (tick k s w r we din re).w2r0 = if r then s.wgray else s.w2r0 := by cases r <;> simp [tick, tickR]
  have e_w2r1 : (tick k s w r we din re).w2r1 = if r then s.w2r0 else s.w2r1 := by cases r <;> simp [tick, tickR]
  have e_mem : (tick k s w r we din re).mem = if wa then s.mem.set (s.wbin % 2 ^ k) din else s.mem := by
    subst hwacc; cases w <;> simp [tick, tickW, wAcc]
  have e_dout : (tick k s w r we din re).dout =
      if r then s.mem.getD ((tick k s w r we din re).rbin % 2 ^ k) 0 else s.dout := by
    cases r <;> simp [tick, tickR]
  have hslot : s.wbin % 2 ^ k = g.ws.length % 2 ^ k := by rw [hw, Nat.mod_mod_of_dvd _ hdvd]
  simp only [Inv, Ghost.next]
  refine ⟨?_, e_wgray, ?_, e_rgray, ?_, ?_, ?_, ?_, ?_, ?_, ?_, ?_, ?_, ?_, ?_, ?_, ?_⟩
  · rw [e_wbin, hw]; cases wa <;> simp [mod_succ_mod]
  · rw [e_rbin, hr]; cases ra <;> simp [mod_succ_mod]
  · rw [e_r2w0]; cases w <;> simp [hrg, hr, h20]
  · rw [e_r2w1]; cases w <;> simp [h20, h21]
  · rw [e_w2r0]; cases r <;> simp [hwg, hw, h30]
  · rw [e_w2r1]; cases r <;> simp [h30, h31]
  · cases w <;> simp <;> omega
  · cases w <;> cases ra <;> simp <;> omega
  · cases hr' : ra
    · cases r <;> simp <;> omega
    · have h1 := hra' hr'; have h2 := hra hr'; subst h1; simp; omega
  · cases r <;> simp <;> omega
  · cases r <;> cases wa <;> simp <;> omega
  · cases hw' : wa
    · cases w <;> simp <;> omega
    · have h1 := hwa' hw'; have h2 := hwa hw'; subst h1; simp; omega
  · rw [e_mem]; cases wa <;> simp [hlen]
  · -- memory
    intro i hi1 hi2
    rw [e_mem]
    cases hw' : wa
    · simp only [hw', Bool.false_eq_true, if_false] at hi2 ⊢
      exact hmem i (by cases ra <;> simp at hi1 <;> omega) hi2
    · have h2 := hwa hw'
      simp only [hw', if_true, List.length_append, List.length_singleton] at hi2 ⊢
      have hiR : g.R ≤ i := by cases ra <;> simp at hi1 <;> omega
      by_cases hil : i = g.ws.length
      · subst hil
        rw [hslot, List.getD_eq_getElem?_getD, List.getElem?_set_self (by rw [hlen]; exact Nat.mod_lt _ hD)]
        simp
      · have hil' : i < g.ws.length := by omega
        have hne : i % 2 ^ k ≠ g.ws.length % 2 ^ k := slot_distinct i g.ws.length (2 ^ k) hD hil' (by omega)
        rw [hslot, List.getD_eq_getElem?_getD, List.getElem?_set_ne (fun e => hne e.symm), ← List.getD_eq_getElem?_getD,
          hmem i hiR hil']
        simp [List.getD_eq_getElem?_getD, List.getElem?_append_left hil']
  · -- the word at the output
    intro hlt
    rw [e_dout]
    cases r
    · have hra0 : ra = false := by cases h : ra; rfl; exact absurd (hra' h) (by simp)
      simp only [hra0, Bool.false_eq_true, if_false] at hlt ⊢
      rw [hdout hlt]
      cases wa <;> simp [List.getD_eq_getElem?_getD, List.getElem?_append_left (by omega : g.R < g.ws.length)]
    · simp only [if_true] at hlt ⊢
      rw [e_rbin, hr]
      have hR' : (if ra = true then (g.R % 2 ^ (k + 1) + 1) % 2 ^ (k + 1) else g.R % 2 ^ (k + 1)) % 2 ^ k
            = (if ra = true then g.R + 1 else g.R) % 2 ^ k := by
        cases ra <;> simp [mod_succ_mod, Nat.mod_mod_of_dvd _ hdvd]
      rw [hR']
      have hlt' : (if ra = true then g.R + 1 else g.R) < g.ws.length := by omega
      have hge : g.R ≤ (if ra = true then g.R + 1 else g.R) := by cases ra <;> simp
      rw [hmem _ hge hlt']
      cases wa <;> simp [List.getD_eq_getElem?_getD, List.getElem?_append_left hlt']

/-! ### every schedule: the words come out exactly once, in order, and never more than `depth` are in flight -/

theorem take_succ_drop (L : List Nat) (R n : Nat) (h : R < L.length) :
    (L.drop R).take (n + 1) = L.getD R 0 :: (L.drop (R + 1)).take n := by
  rw [List.drop_eq_getElem_cons h, List.take_succ_cons]
  simp [List.getD_eq_getElem?_getD, List.getElem?_eq_getElem h]

/-- one instant: which clocks rise, and what the two sides present -/
structure Ev where
  w : Bool
  r : Bool
  we : Bool
  din : Nat
  re : Bool

/-- run a schedule; collect the words accepted on the write side and the words delivered on the read side -/
def run (k : Nat) : State → List Ev → State × List Nat × List Nat
  | s, [] => (s, [], [])
  | s, e :: es =>
    let rest := run k (tick k s e.w e.r e.we e.din e.re) es
    (rest.1, (if wAcc k s e.w e.we then e.din :: rest.2.1 else rest.2.1),
             (if rAcc s e.r e.re then s.dout :: rest.2.2 else rest.2.2))

theorem run_inv (k : Nat) (hg : GrayOK k) (es : List Ev) (s : State) (g : Ghost) (h : Inv k s g) :
    ∃ gf, Inv k (run k s es).1 gf ∧ gf.ws = g.ws ++ (run k s es).2.1 ∧ gf.R = g.R + (run k s es).2.2.length ∧
      (run k s es).2.2 = ((g.ws ++ (run k s es).2.1).drop g.R).take (run k s es).2.2.length := by
  induction es generalizing s g with
  | nil => exact ⟨g, by simpa [run] using h, by simp [run], by simp [run], by simp [run]⟩
  | cons e es ih =>
    obtain ⟨hinv, hout⟩ := tick_inv k hg s g e.w e.r e.we e.re e.din h
    obtain ⟨gf, hf, hws, hR, hd⟩ := ih _ _ hinv
    have hRlt : rAcc s e.r e.re = true → g.R < g.ws.length := by
      intro ha
      have := readable_iff k hg s g h
      obtain ⟨_, _, _, _, _, _, _, _, _, _, c3, c4, c5, _⟩ := h
      simp only [rAcc, Bool.and_eq_true] at ha
      have : g.R < g.W1 := by simpa [this] using ha.1.2
      omega
    refine ⟨gf, by simpa [run] using hf, ?_, ?_, ?_⟩
    · simp only [run, hws, Ghost.next]
      cases wAcc k s e.w e.we <;> simp
    · simp only [run, hR, Ghost.next]
      cases rAcc s e.r e.re <;> simp <;> omega
    · simp only [run]
      simp only [Ghost.next] at hd
      cases hra : rAcc s e.r e.re
      · simp only [hra, Bool.false_eq_true, if_false] at hd ⊢
        cases hwa : wAcc k s e.w e.we <;> simp only [hwa, Bool.false_eq_true, if_false, if_true] at hd ⊢
        · exact hd
        · simpa [List.append_assoc] using hd
      · have hlt := hRlt hra
        simp only [hra, if_true] at hd ⊢
        have hL : (if wAcc k s e.w e.we = true then g.ws ++ [e.din] else g.ws) ++ (run k (tick k s e.w e.r e.we e.din e.re) es).2.1 =
            g.ws ++ (if wAcc k s e.w e.we = true then e.din :: (run k (tick k s e.w e.r e.we e.din e.re) es).2.1
                     else (run k (tick k s e.w e.r e.we e.din e.re) es).2.1) := by
          cases wAcc k s e.w e.we <;> simp
        rw [hL] at hd
        rw [List.length_cons, take_succ_drop _ _ _ (by rw [List.length_append]; omega), ← hd, hout hra]
        congr 1
        simp [List.getD_eq_getElem?_getD, List.getElem?_append_left hlt]

/-- **Clock-domain crossing, every schedule.** For every sequence of instants (any frequency ratio, any phase,
coincident edges included) and every valid/ready behaviour on both sides, starting from reset: the words delivered on
the read side are exactly the first words accepted on the write side, in the same order - none lost, duplicated,
invented or reordered - and at no time are more than `depth` accepted words still undelivered. -/
theorem cdc_fifo_correct (k : Nat) (hg : GrayOK k) (es : List Ev) :
    let res := run k (State.init k) es
    res.2.2 = res.2.1.take res.2.2.length ∧ res.2.2.length ≤ res.2.1.length ∧
    res.2.1.length - res.2.2.length ≤ 2 ^ k := by
  obtain ⟨gf, hf, hws, hR, hd⟩ := run_inv k hg es (State.init k) {} (inv_init k)
  obtain ⟨_, _, _, _, _, _, _, _, c1, c2, c3, c4, c5, c6, _⟩ := hf
  simp only [List.nil_append, Nat.zero_add, List.drop_zero] at hws hR hd
  refine ⟨hd, ?_, ?_⟩
  · rw [← hws, ← hR]; omega
  · rw [← hws, ← hR]; omega

/-- the depths LiteDRAMNativePortCDC is built with (commands 4, write and read data 16) and the neighbouring powers of two -/
theorem cdc_fifo_correct_depth4 (es : List Ev) :
    let res := run 2 (State.init 2) es
    res.2.2 = res.2.1.take res.2.2.length ∧ res.2.2.length ≤ res.2.1.length ∧ res.2.1.length - res.2.2.length ≤ 2 ^ 2 :=
  cdc_fifo_correct 2 grayOK_2 es
theorem cdc_fifo_correct_depth8 (es : List Ev) :
    let res := run 3 (State.init 3) es
    res.2.2 = res.2.1.take res.2.2.length ∧ res.2.2.length ≤ res.2.1.length ∧ res.2.1.length - res.2.2.length ≤ 2 ^ 3 :=
  cdc_fifo_correct 3 grayOK_3 es
theorem cdc_fifo_correct_depth16 (es : List Ev) :
    let res := run 4 (State.init 4) es
    res.2.2 = res.2.1.take res.2.2.length ∧ res.2.2.length ≤ res.2.1.length ∧ res.2.1.length - res.2.2.length ≤ 2 ^ 4 :=
  cdc_fifo_correct 4 grayOK_4 es
theorem cdc_fifo_correct_depth32 (es : List Ev) :
    let res := run 5 (State.init 5) es
    res.2.2 = res.2.1.take res.2.2.length ∧ res.2.2.length ≤ res.2.1.length ∧ res.2.1.length - res.2.2.length ≤ 2 ^ 5 :=
  cdc_fifo_correct 5 grayOK_5 es

/-! ### the port: LiteDRAMNativePortCDC is three such FIFOs, one per channel -/

/-- one instant of the port -/
structure PEv where
  u : Bool                  -- the user clock rises
  y : Bool                  -- the controller clock rises
  iu : PortCdc.UIn
  iy : PortCdc.SIn

def prun (c : PortCdc.Cfg) : PortCdc.State → List PEv → PortCdc.State
  | s, [] => s
  | s, e :: es => prun c (PortCdc.tick c s e.u e.y e.iu e.iy) es

/-- the three channels of the port, seen as FIFO schedules -/
def cmdEv (e : PEv) : Ev := ⟨e.u, e.y, e.iu.cmdValid, e.iu.cmd, e.iy.cmdReady⟩
def wEv (e : PEv) : Ev := ⟨e.u, e.y, e.iu.wValid, e.iu.w, e.iy.wReady⟩
def rEv (e : PEv) : Ev := ⟨e.y, e.u, e.iy.rValid, e.iy.r, e.iu.rReady⟩

theorem prun_channels (c : PortCdc.Cfg) (es : List PEv) (s : PortCdc.State) :
    (prun c s es).cmd = (run c.kCmd s.cmd (es.map cmdEv)).1 ∧
    (prun c s es).wdata = (run c.kW s.wdata (es.map wEv)).1 ∧
    (prun c s es).rdata = (run c.kR s.rdata (es.map rEv)).1 := by
  induction es generalizing s with
  | nil => simp [prun, run]
  | cons e es ih =>
    have := ih (PortCdc.tick c s e.u e.y e.iu e.iy)
    simpa [prun, run, PortCdc.tick, cmdEv, wEv, rEv] using this

/-- **The CDC port, every schedule.** Whatever the two clocks do and whatever both sides present, each of the three
channels of LiteDRAMNativePortCDC (commands and write data towards the controller, read data back) delivers exactly
the words it accepted, once and in order; memory semantics as seen through the port are therefore those of the port
behind it. (Depths 4/16/16 are the defaults; any depths with the gray facts established work.) -/
theorem portcdc_correct (c : PortCdc.Cfg) (hc : GrayOK c.kCmd) (hw : GrayOK c.kW) (hr : GrayOK c.kR) (es : List PEv) :
    let rc := run c.kCmd (State.init c.kCmd) (es.map cmdEv)
    let rw := run c.kW (State.init c.kW) (es.map wEv)
    let rr := run c.kR (State.init c.kR) (es.map rEv)
    rc.2.2 = rc.2.1.take rc.2.2.length ∧ rw.2.2 = rw.2.1.take rw.2.2.length ∧ rr.2.2 = rr.2.1.take rr.2.2.length ∧
    (prun c (PortCdc.State.init c) es).cmd = rc.1 ∧ (prun c (PortCdc.State.init c) es).wdata = rw.1 ∧
    (prun c (PortCdc.State.init c) es).rdata = rr.1 := by
  have h := prun_channels c es (PortCdc.State.init c)
  exact ⟨(cdc_fifo_correct c.kCmd hc _).1, (cdc_fifo_correct c.kW hw _).1, (cdc_fifo_correct c.kR hr _).1, h.1, h.2.1, h.2.2⟩

/-- the depths LiteDRAMNativePortCDC uses by default: commands 4, write data 16, read data 16 -/
theorem portcdc_correct_default (es : List PEv) :
    let rc := run 2 (State.init 2) (es.map cmdEv)
    let rw := run 4 (State.init 4) (es.map wEv)
    let rr := run 4 (State.init 4) (es.map rEv)
    rc.2.2 = rc.2.1.take rc.2.2.length ∧ rw.2.2 = rw.2.1.take rw.2.2.length ∧ rr.2.2 = rr.2.1.take rr.2.2.length :=
  ⟨(cdc_fifo_correct 2 grayOK_2 _).1, (cdc_fifo_correct 4 grayOK_4 _).1, (cdc_fifo_correct 4 grayOK_4 _).1⟩

/-! ### non-vacuity: a concrete schedule with coincident and separate edges -/
example : (run 2 (State.init 2) [⟨true, false, true, 7, false⟩, ⟨true, true, true, 8, true⟩, ⟨false, true, false, 0, true⟩,
    ⟨true, true, false, 0, true⟩, ⟨false, true, false, 0, true⟩, ⟨false, true, false, 0, true⟩]).2 = ([7, 8], [7, 8]) := by decide

end C08
