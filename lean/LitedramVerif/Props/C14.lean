/-
C14: BIST reports exactly the words that differ.
-/
import LitedramVerif.Model.Bist
import LitedramVerif.Spec.BistSpec
namespace C14
open Bist BistSpec

/-! ### the generators: position `i` of a run -/
theorem iter_succ_outer {α : Type} (f : α → α) (n : Nat) (x : α) : iter f (n + 1) x = f (iter f n x) := by
  induction n generalizing x with
  | zero => rfl
  | succ n ih => simp only [iter] at *; exact ih (f x)

/-- advancing a generator once more moves it from position `i` to position `i + 1` -/
theorem genAt_succ (i : Nat) : genAt (i + 1) = (genAt i).tick := iter_succ_outer Gen.tick i {}

theorem genAt_count (i : Nat) : (genAt i).count = i % 2 ^ 31 := by
  induction i with
  | zero => rfl
  | succ i ih => rw [genAt_succ]; simp only [Gen.tick, ih]; omega

theorem nWords_lt (c : Cfg) (r : Regs) : nWords c r < 2 ^ c.aw := by
  unfold nWords Cfg.awidth
  split
  · have : r.length % 2 ^ c.aw < 2 ^ c.aw := Nat.mod_lt _ (Nat.two_pow_pos _)
    exact Nat.lt_of_le_of_lt (Nat.div_le_self _ _) this
  · rw [Nat.div_lt_iff_lt_mul (Nat.two_pow_pos _), ← Nat.pow_add]
    exact Nat.mod_lt _ (Nat.two_pow_pos _)

/-! ### the generator FSM hands exactly the sequence to the DMA engine -/

def GInv (c : Cfg) (r : Regs) (s : GState) (k : Nat) : Prop :=
  s.dataGen = genAt k ∧ s.addrGen = genAt k ∧
  match s.fsm with
  | .idle => k = 0
  | .run | .wait => s.cmdCounter = k ∧ k < nWords c r
  | .await | .done => k = nWords c r

/-- one clock: the position advances exactly when a word is handed over, and that word is the sequence's -/
theorem gstep_inv (c : Cfg) (r : Regs) (s : GState) (i : GIn) (k : Nat)
    (hn : 1 ≤ nWords c r) (hlt : nWords c r < 2 ^ c.aw) (hr : i.reset = false) (h : GInv c r s k) :
    let o := (gstep c r s i).2
    let acc := o.sinkValid && o.sinkReady
    GInv c r (gstep c r s i).1 (if acc then k + 1 else k) ∧
    (acc = true → o.sinkAddr = seqAddr c r k ∧ o.sinkData = seqData c r k) := by
  obtain ⟨hd, ha, hf⟩ := h
  simp only [gstep, hr]
  generalize (Dma.wstep c.dma s.dma _) = w
  have hmod : k + 1 < 2 ^ c.aw → (k + 1) % 2 ^ c.aw = k + 1 := fun h => Nat.mod_eq_of_lt h
  cases hfsm : s.fsm <;> simp only [hfsm] at hf
  · subst hf
    cases hs : i.start <;> simp [GInv, hd, ha] <;> omega
  · cases hci : i.cascadeIn <;> simp [GInv, hd, ha, hf]
  · obtain ⟨hc, hk⟩ := hf
    cases hsr : w.2.sinkReady
    · simp [GInv, hd, ha, hc, hk]
    · by_cases hl : (k : Int) = (nWords c r : Int) - 1
      · simp [GInv, hd, ha, hc, hl, genAt_succ, seqAddr, seqData]; omega
      · have : k + 1 < nWords c r := by omega
        cases hci : i.cascadeIn <;>
          simp [GInv, hd, ha, hc, hl, genAt_succ, seqAddr, seqData, hmod (by omega : k + 1 < 2 ^ c.aw), this]
  · cases hwv : w.2.wdataValid <;> simp [GInv, hd, ha, hf]
  · simp [GInv, hd, ha, hf]

def grun (c : Cfg) (r : Regs) : GState → List GIn → GState × List (Nat × Nat)
  | s, [] => (s, [])
  | s, i :: is =>
    let o := (gstep c r s i).2
    let rest := grun c r (gstep c r s i).1 is
    (rest.1, if o.sinkValid && o.sinkReady then (o.sinkAddr, o.sinkData) :: rest.2 else rest.2)

def seqFrom (c : Cfg) (r : Regs) (k m : Nat) : List (Nat × Nat) :=
  (List.range' k m).map (fun i => (seqAddr c r i, seqData c r i))

theorem grun_inv (c : Cfg) (r : Regs) (ins : List GIn) (s : GState) (k : Nat)
    (hn : 1 ≤ nWords c r) (hlt : nWords c r < 2 ^ c.aw) (hr : ∀ i ∈ ins, i.reset = false) (h : GInv c r s k) :
    ∃ m, GInv c r (grun c r s ins).1 (k + m) ∧ (grun c r s ins).2 = seqFrom c r k m := by
  induction ins generalizing s k with
  | nil => exact ⟨0, by simpa [grun] using h, by simp [grun, seqFrom]⟩
  | cons i is ih =>
    have hs := gstep_inv c r s i k hn hlt (hr i (by simp)) h
    simp only at hs
    obtain ⟨hinv, hw⟩ := hs
    by_cases hacc : ((gstep c r s i).2.sinkValid && (gstep c r s i).2.sinkReady) = true
    · simp only [hacc, if_true] at hinv
      obtain ⟨m, hm, hws⟩ := ih _ (k + 1) (fun j hj => hr j (by simp [hj])) hinv
      refine ⟨m + 1, by simpa [grun, Nat.add_assoc, Nat.add_comm 1 m] using hm, ?_⟩
      obtain ⟨h1, h2⟩ := hw hacc
      simp only [grun, hacc, if_true, hws, seqFrom, List.range'_succ, List.map_cons, h1, h2]
    · simp only [hacc] at hinv
      obtain ⟨m, hm, hws⟩ := ih _ k (fun j hj => hr j (by simp [hj])) (by simpa using hinv)
      exact ⟨m, by simpa [grun] using hm, by simp [grun, hacc, hws]⟩

/-- **Generator.** From reset, under every schedule of start strobes, cascade stalls and port handshakes (no reset
in between), the words handed to the DMA engine are a prefix of the run's sequence `(seqAddr i, seqData i)`, in
order, without gaps or repeats; and once the FSM has left RUN for good (`await`/`done`) it is the whole sequence
of exactly `nWords` words. -/
theorem generator_writes_sequence (c : Cfg) (r : Regs) (ins : List GIn)
    (hn : 1 ≤ nWords c r) (hr : ∀ i ∈ ins, i.reset = false) :
    ∃ m, m ≤ nWords c r ∧ (grun c r {} ins).2 = writes c r m ∧
      (((grun c r {} ins).1.fsm = .await ∨ (grun c r {} ins).1.fsm = .done) → m = nWords c r) := by
  have h0 : GInv c r {} 0 := ⟨rfl, rfl, rfl⟩
  obtain ⟨m, hm, hws⟩ := grun_inv c r ins {} 0 hn (nWords_lt c r) hr h0
  refine ⟨m, ?_, ?_, ?_⟩
  · obtain ⟨_, _, hf⟩ := hm
    cases hfsm : (grun c r {} ins).1.fsm <;> simp only [hfsm] at hf <;> omega
  · simp [hws, seqFrom, writes, List.range_eq_range']
  · obtain ⟨_, _, hf⟩ := hm
    rintro (hfsm | hfsm) <;> simp only [hfsm] at hf <;> omega

/-- when the generator reports `done`, the DMA engine's FIFO is empty: every word handed to it has left on the port -/
def DoneInv (s : GState) : Prop := s.fsm = .done → s.dma.fifo.q = []

theorem done_inv_step (c : Cfg) (r : Regs) (s : GState) (i : GIn) (hd : 2 ≤ c.dma.depth) (hb : c.dma.buffered = false)
    (hr : i.reset = false) (h : DoneInv s) : DoneInv (gstep c r s i).1 := by
  have h0 : (c.dma.depth == 0) = false := by simp; omega
  have h1 : (c.dma.depth == 1) = false := by simp; omega
  unfold DoneInv at *
  cases hf : s.fsm <;> simp only [gstep, hr, hf, Dma.wstep, Dma.dataCfg, Fifo.step, Fifo.srcValid, Fifo.sinkReady, h0, h1, hb] <;> simp
  · intro h'; split at h' <;> simp at h'
  · intro h'; split at h' <;> simp at h'
  · intro h'; exfalso; revert h'; (repeat' split) <;> simp
  · intro h'; simp [h']
  · simp [h hf]

def gfinal (c : Cfg) (r : Regs) : GState → List GIn → GState
  | s, [] => s
  | s, i :: is => gfinal c r (gstep c r s i).1 is

/-- **`done` means written.** From reset, with the DMA engine's default FIFO (16 deep, unbuffered) and no reset in
between: whenever the generator shows `done`, exactly `nWords` words - the whole sequence - have been handed to the DMA
engine (`generator_writes_sequence`) and its FIFO is empty, i.e. every one of them has left on the port. -/
theorem done_means_written (c : Cfg) (r : Regs) (ins : List GIn) (hd : 2 ≤ c.dma.depth) (hb : c.dma.buffered = false)
    (hr : ∀ i ∈ ins, i.reset = false) : DoneInv (gfinal c r {} ins) := by
  suffices ∀ s, DoneInv s → DoneInv (gfinal c r s ins) from this _ (by simp [DoneInv])
  induction ins with
  | nil => intro s h; simpa [gfinal] using h
  | cons i is ih =>
    intro s h
    exact ih (fun j hj => hr j (by simp [hj])) _ (done_inv_step c r s i hd hb (hr i (by simp)) h)

/-! ### the checker counts exactly the differing positions -/

theorem errCount_snoc (c : Cfg) (r : Regs) (ws : List Nat) (w : Nat) :
    errCount c r (ws ++ [w]) = errCount c r ws + (if w != seqData c r ws.length then 1 else 0) := by
  simp [errCount, List.zipIdx_append, List.countP_append, List.countP_cons]

theorem errCount_le (c : Cfg) (r : Regs) (ws : List Nat) : errCount c r ws ≤ ws.length := by
  simpa [errCount] using List.countP_le_length (l := ws.zipIdx) (p := fun p => p.1 != seqData c r p.2)

/-- `kc` read addresses handed to the DMA engine so far, `ws` the words compared so far (oldest first) -/
def CInv (c : Cfg) (r : Regs) (s : CState) (kc : Nat) (ws : List Nat) : Prop :=
  s.addrGen = genAt kc ∧ s.dataGen = genAt ws.length ∧
  (match s.cmdFsm with
   | .idle => False
   | .wait | .run => s.cmdCounter = kc ∧ kc < nWords c r
   | .done => kc = nWords c r) ∧
  (match s.dataFsm with
   | .idle => False
   | .run => s.dataCounter = ws.length ∧ ws.length < nWords c r ∧ s.errors = errCount c r ws
   | .done => ws.length = nWords c r ∧ s.errors = errCount c r ws)

theorem cstep_inv (c : Cfg) (r : Regs) (s : CState) (i : CIn) (kc : Nat) (ws : List Nat)
    (hlt : nWords c r < 2 ^ c.aw) (h32 : c.aw ≤ 32) (hr : i.reset = false) (hs : i.start = false)
    (h : CInv c r s kc ws) :
    let o := (cstep c r s i).2
    CInv c r (cstep c r s i).1 (if o.cmdAcc then kc + 1 else kc) (if o.dataAcc then ws ++ [o.data] else ws) ∧
    (o.cmdAcc = true → o.addr = seqAddr c r kc) := by
  obtain ⟨ha, hd, hcf, hdf⟩ := h
  simp only [cstep, hr, hs]
  generalize (Dma.rstep c.dma s.dma _) = w
  have hmod : ∀ k, k + 1 < 2 ^ c.aw → (k + 1) % 2 ^ c.aw = k + 1 := fun k h => Nat.mod_eq_of_lt h
  have h2 : 2 ^ c.aw ≤ 2 ^ 32 := Nat.pow_le_pow_right (by omega) h32
  refine ⟨⟨?_, ?_, ?_, ?_⟩, ?_⟩
  · -- address generator
    cases hf : s.cmdFsm <;> simp only [hf] at hcf <;> simp [ha]
    cases w.2.sinkReady <;> simp [ha, genAt_succ]
  · -- data generator
    cases hf : s.dataFsm <;> simp only [hf] at hdf <;> simp [hd]
    cases w.2.srcValid <;> simp [hd, genAt_succ]
  · -- command FSM
    cases hf : s.cmdFsm <;> simp only [hf] at hcf
    · cases i.cascadeIn <;> simp [hcf]
    · obtain ⟨hc, hk⟩ := hcf
      cases hsr : w.2.sinkReady
      · simp [hc, hk]
      · by_cases hl : (kc : Int) = (nWords c r : Int) - 1
        · simp [hc, hl]; omega
        · have : kc + 1 < nWords c r := by omega
          cases i.cascadeIn <;> simp [hc, hl, hmod kc (by omega), this]
    · simp [hcf]
  · -- data FSM
    cases hf : s.dataFsm <;> simp only [hf] at hdf
    · obtain ⟨hc, hk, he⟩ := hdf
      cases hsv : w.2.srcValid
      · simp [hc, hk, he]
      · have hle := errCount_le c r ws
        by_cases hl : (ws.length : Int) = (nWords c r : Int) - 1
        · by_cases hx : w.2.srcData = replicate c.dw ((genAt ws.length).o r.randomData)
          · simp [hc, hl, he, hd, errCount_snoc, seqData, hx]; omega
          · have : (errCount c r ws + 1) % 2 ^ 32 = errCount c r ws + 1 := Nat.mod_eq_of_lt (by omega)
            simp [hc, hl, he, hd, errCount_snoc, seqData, hx, this]; omega
        · have hlt' : ws.length + 1 < nWords c r := by omega
          by_cases hx : w.2.srcData = replicate c.dw ((genAt ws.length).o r.randomData)
          · simp [hc, hl, he, hd, errCount_snoc, seqData, hx, hmod ws.length (by omega), hlt']
          · have : (errCount c r ws + 1) % 2 ^ 32 = errCount c r ws + 1 := Nat.mod_eq_of_lt (by omega)
            simp [hc, hl, he, hd, errCount_snoc, seqData, hx, this, hmod ws.length (by omega), hlt']
    · simp [hdf]
  · cases hf : s.cmdFsm <;> simp only [hf] at hcf <;> simp [seqAddr, ha]

def crun (c : Cfg) (r : Regs) : CState → List CIn → CState × List Nat × List Nat
  | s, [] => (s, [], [])
  | s, i :: is =>
    let o := (cstep c r s i).2
    let rest := crun c r (cstep c r s i).1 is
    (rest.1, (if o.cmdAcc then o.addr :: rest.2.1 else rest.2.1), (if o.dataAcc then o.data :: rest.2.2 else rest.2.2))

theorem crun_inv (c : Cfg) (r : Regs) (ins : List CIn) (s : CState) (kc : Nat) (ws : List Nat)
    (hlt : nWords c r < 2 ^ c.aw) (h32 : c.aw ≤ 32)
    (hr : ∀ i ∈ ins, i.reset = false ∧ i.start = false) (h : CInv c r s kc ws) :
    ∃ m, CInv c r (crun c r s ins).1 (kc + m) (ws ++ (crun c r s ins).2.2) ∧
      (crun c r s ins).2.1 = (List.range' kc m).map (seqAddr c r) := by
  induction ins generalizing s kc ws with
  | nil => exact ⟨0, by simpa [crun] using h, by simp [crun]⟩
  | cons i is ih =>
    have hs := cstep_inv c r s i kc ws hlt h32 (hr i (by simp)).1 (hr i (by simp)).2 h
    simp only at hs
    obtain ⟨hinv, hw⟩ := hs
    obtain ⟨m, hm, hws⟩ := ih _ _ _ (fun j hj => hr j (by simp [hj])) hinv
    by_cases hacc : (cstep c r s i).2.cmdAcc = true
    · refine ⟨m + 1, ?_, ?_⟩
      · simp only [hacc, if_true] at hm
        by_cases hd : (cstep c r s i).2.dataAcc = true
        · simpa [crun, hd, Nat.add_assoc, Nat.add_comm 1 m] using hm
        · simpa [crun, hd, Nat.add_assoc, Nat.add_comm 1 m] using hm
      · simp only [hacc, if_true] at hws
        simp [crun, hacc, hws, hw hacc, List.range'_succ]
    · refine ⟨m, ?_, ?_⟩
      · simp only [hacc] at hm
        by_cases hd : (cstep c r s i).2.dataAcc = true
        · simpa [crun, hd] using hm
        · simpa [crun, hd] using hm
      · simp only [hacc] at hws
        simpa [crun, hacc] using hws

/-- the state right after the start strobe: from reset, a cycle with `start` puts both FSMs to work at position 0 -/
theorem checker_started (c : Cfg) (r : Regs) (i : CIn) (hn : 1 ≤ nWords c r) (hs : i.start = true) (hr : i.reset = false) :
    CInv c r (cstep c r {} i).1 0 [] := by
  simp [cstep, CInv, hs, hr, errCount, genAt, iter]
  omega

/-- **Checker.** After the start strobe, under every schedule of cascade stalls, port handshakes and read-data
arrival times (no further start or reset), the read addresses handed to the DMA engine are a prefix of the run's
address sequence, and when `done` is reported exactly `nWords` returned words have been compared and `errors` is the
number of positions `i` at which the `i`-th returned word differs from `seqData i`. -/
theorem checker_counts_differences (c : Cfg) (r : Regs) (s0 : CState) (ins : List CIn)
    (h32 : c.aw ≤ 32) (h0 : CInv c r s0 0 [])
    (hr : ∀ i ∈ ins, i.reset = false ∧ i.start = false) :
    let fin := crun c r s0 ins
    (∃ m, m ≤ nWords c r ∧ fin.2.1 = (List.range m).map (seqAddr c r)) ∧
    (fin.1.dataFsm = .done → fin.2.2.length = nWords c r ∧ fin.1.errors = errCount c r fin.2.2) ∧
    (fin.1.dataFsm ≠ .done → fin.2.2.length < nWords c r) := by
  obtain ⟨m, ⟨_, _, hcf, hdf⟩, hws⟩ := crun_inv c r ins s0 0 [] (nWords_lt c r) h32 hr h0
  refine ⟨⟨m, ?_, by simpa [List.range_eq_range'] using hws⟩, ?_, ?_⟩
  · cases hf : (crun c r s0 ins).1.cmdFsm <;> simp only [hf] at hcf <;> omega
  · intro hd
    simp only [hd] at hdf
    simpa using hdf
  · intro hd
    cases hf : (crun c r s0 ins).1.dataFsm <;> simp only [hf] at hdf
    · simpa using hdf.2.1
    · exact absurd hf hd

/-! ### memory: what the count means -/

theorem get_set (m : Mem) (a d x : Nat) : (m.set a d).get x = if x = a then d else m.get x := by
  by_cases h : x = a
  · simp [Mem.get, Mem.set, List.find?_cons, h]
  · have : (a == x) = false := by simpa using fun h' => h h'.symm
    simp [Mem.get, Mem.set, List.find?_cons, h, this]

/-- when the memory answers the `i`-th read with the word it stores at `seqAddr i`, the checker's count is the
number of sequence positions at which the stored word differs from the generated word -/
theorem errCount_of_faithful_reads (c : Cfg) (r : Regs) (m : Mem) (n : Nat) :
    errCount c r ((List.range n).map (fun i => m.get (seqAddr c r i))) = expectedErrors c r n m := by
  induction n with
  | zero => simp [errCount, expectedErrors]
  | succ n ih =>
    rw [List.range_succ, List.map_append, List.map_cons, List.map_nil, errCount_snoc, ih]
    simp [expectedErrors, List.range_succ, List.countP_append, List.countP_cons]

theorem writes_succ (c : Cfg) (r : Regs) (n : Nat) :
    writes c r (n + 1) = writes c r n ++ [(seqAddr c r n, seqData c r n)] := by
  simp [writes, List.range_succ]

/-- a memory that stores faithfully, after a run whose address sequence does not repeat an address, holds
`seqData i` at `seqAddr i` for every position -/
theorem faithful_memory_holds_sequence (c : Cfg) (r : Regs) (m : Mem) (n : Nat)
    (hinj : ∀ i j, i < n → j < n → seqAddr c r i = seqAddr c r j → i = j) :
    ∀ i, i < n → (applyWrites m (writes c r n)).get (seqAddr c r i) = seqData c r i := by
  induction n with
  | zero => intro i hi; omega
  | succ n ih =>
    intro i hi
    rw [writes_succ, applyWrites, List.foldl_append]
    simp only [List.foldl_cons, List.foldl_nil, get_set]
    split
    · rename_i h
      rw [hinj i n hi (by omega) h]
    · rename_i h
      have hi' : i < n := by
        rcases Nat.lt_succ_iff_lt_or_eq.mp hi with h' | h'
        · exact h'
        · exact absurd (by rw [h']) h
      exact ih (fun a b ha hb => hinj a b (by omega) (by omega)) i hi'

/-- ... and therefore the checker must report zero -/
theorem no_repeat_zero_errors (c : Cfg) (r : Regs) (m : Mem) (n : Nat)
    (hinj : ∀ i j, i < n → j < n → seqAddr c r i = seqAddr c r j → i = j) :
    expectedErrors c r n (applyWrites m (writes c r n)) = 0 := by
  simp only [expectedErrors, List.countP_eq_zero, List.mem_range]
  intro i hi
  simp [faithful_memory_holds_sequence c r m n hinj i hi]

theorem count_mem_range (ps : List Nat) (n : Nat) (hnd : ps.Nodup) (hlt : ∀ p ∈ ps, p < n) :
    (List.range n).countP (fun i => decide (i ∈ ps)) = ps.length := by
  rw [List.countP_eq_length_filter]
  apply List.Perm.length_eq
  rw [List.perm_ext_iff_of_nodup (List.nodup_range.filter _) hnd]
  intro a
  simp only [List.mem_filter, List.mem_range, decide_eq_true_eq]
  exact ⟨fun h => h.2, fun h => ⟨hlt a h, h⟩⟩

/-- `k` corrupted words yield exactly `k` errors: if the words stored at the positions `ps` (distinct positions of
the run) differ from the generated ones and all other positions hold the generated word, the count is `|ps|` -/
theorem corrupted_words_counted (c : Cfg) (r : Regs) (m : Mem) (n : Nat) (ps : List Nat)
    (hnd : ps.Nodup) (hlt : ∀ p ∈ ps, p < n)
    (hm : ∀ i, i < n → (m.get (seqAddr c r i) ≠ seqData c r i ↔ i ∈ ps)) :
    expectedErrors c r n m = ps.length := by
  rw [← count_mem_range ps n hnd hlt]
  simp only [expectedErrors]
  apply List.countP_congr
  intro i hi
  have := hm i (List.mem_range.mp hi)
  simp [this]

/-! ### where the words land -/

theorem addrMask_eq (c : Cfg) (r : Regs) (hb : r.base < r.end_) (he : r.end_ ≤ 2 ^ c.awidth) :
    addrMask c r = r.end_ - r.base - 1 := by
  unfold addrMask
  generalize 2 ^ c.awidth = P at *
  have hb' : r.base % P = r.base := Nat.mod_eq_of_lt (by omega)
  have : r.end_ + P - r.base % P + P - 1 = (r.end_ - r.base - 1) + P + P := by omega
  rw [this, Nat.add_mod_right, Nat.add_mod_right, Nat.mod_eq_of_lt (by omega)]

theorem window_arith (B off P : Nat) (hP : 0 < P) : ((B + off) % P + P - B % P) % P = off % P := by
  rw [Nat.add_mod B off P]
  have hb : B % P < P := Nat.mod_lt _ hP
  have ho : off % P < P := Nat.mod_lt _ hP
  generalize B % P = b at *
  generalize off % P = o at *
  by_cases h : b + o < P
  · rw [Nat.mod_eq_of_lt h]
    have : b + o + P - b = o + P := by omega
    rw [this, Nat.add_mod_right, Nat.mod_eq_of_lt ho]
  · have h1 : (b + o) % P = b + o - P := by
      rw [Nat.mod_eq_sub_mod (Nat.le_of_not_lt h)]; exact Nat.mod_eq_of_lt (by omega)
    rw [h1]
    have : b + o - P + P - b = o := by omega
    rw [this, Nat.mod_eq_of_lt ho]

/-- **What the code guarantees about addresses (native port).** For a power-of-two range every word of the run lies,
modulo the port's address space, within `end - base` WORDS above `base`: the mask `(end - base) - 1` is a byte count
but is applied to a word offset. -/
theorem addr_in_mask_window (c : Cfg) (r : Regs) (i k : Nat) (hax : c.axi = false)
    (hb : r.base < r.end_) (he : r.end_ ≤ 2 ^ c.awidth) (hk : r.end_ - r.base = 2 ^ k) :
    inMaskWindow c r (seqAddr c r i) = true := by
  have hm := addrMask_eq c r hb he
  have hbl : r.base % 2 ^ c.awidth = r.base := Nat.mod_eq_of_lt (by omega)
  simp only [inMaskWindow, seqAddr, sinkAddr, byteLo, wordBits, hax, hm, hbl, Bool.false_eq_true, if_false, decide_eq_true_eq]
  rw [Nat.mul_div_cancel _ (Nat.two_pow_pos _), window_arith _ _ _ (Nat.two_pow_pos _)]
  generalize (genAt i).o r.randomAddr = o
  rw [show r.end_ - r.base - 1 = 2 ^ k - 1 by omega, Nat.and_two_pow_sub_one_eq_mod]
  have h1 : o % 2 ^ k < 2 ^ k := Nat.mod_lt _ (Nat.two_pow_pos _)
  have h2 : o % 2 ^ k % 2 ^ c.aw ≤ o % 2 ^ k := Nat.mod_le _ _
  omega

/-- **Byte-wide ports meet the property.** On an 8-bit native port (`ashift = 0`, where words are bytes) every word
of every run, sequential or random, lies inside `[base, end)`. -/
theorem addr_in_range_bytewide (c : Cfg) (r : Regs) (i k : Nat) (hax : c.axi = false) (hs : c.ashift = 0)
    (hb : r.base < r.end_) (he : r.end_ ≤ 2 ^ c.awidth) (hk : r.end_ - r.base = 2 ^ k) :
    inRange c r (seqAddr c r i) = true := by
  have hm := addrMask_eq c r hb he
  have haw : c.awidth = c.aw := by simp [Cfg.awidth, hax, hs]
  have hbl : r.base % 2 ^ c.aw = r.base := Nat.mod_eq_of_lt (by rw [haw] at he; omega)
  simp only [inRange, seqAddr, sinkAddr, byteLo, byteHi, hax, hm, haw, hbl, hs, Bool.false_eq_true, if_false,
    Nat.pow_zero, Nat.div_one, Nat.mul_one, Bool.and_eq_true, decide_eq_true_eq]
  generalize (genAt i).o r.randomAddr = o
  rw [show r.end_ - r.base - 1 = 2 ^ k - 1 by omega, Nat.and_two_pow_sub_one_eq_mod]
  have h1 : o % 2 ^ k < 2 ^ k := Nat.mod_lt _ (Nat.two_pow_pos _)
  rw [haw] at he
  rw [Nat.mod_eq_of_lt (by omega)]
  omega

def witnessCfg : Cfg := { dw := 32, aw := 8, axi := false, ashift := 2 }
def witnessRegs : Regs := { base := 4, end_ := 8, length := 24, randomData := false, randomAddr := false }

/-- **The property's range claim is false of the code for wider ports** (recorded as a known finding; the repository's
own `test_bist_generator_32bit_address_masked` pins this behaviour).  On a 32-bit native port with base = 4, end = 8
(one word) and a sequential run of 6 words, position 1 is written at word 2 = byte 8, outside `[4, 8)`.
The harness replays this witness on the real generator on every run. -/
theorem addr_out_of_range_witness :
    nWords witnessCfg witnessRegs = 6 ∧ seqAddr witnessCfg witnessRegs 1 = 2 ∧
    inRange witnessCfg witnessRegs (seqAddr witnessCfg witnessRegs 1) = false := by
  refine ⟨by decide, ?_, ?_⟩ <;>
    simp [seqAddr, sinkAddr, addrMask, genAt, iter, Gen.tick, Gen.o, witnessCfg, witnessRegs, Cfg.awidth, inRange, byteLo, byteHi]

/-- so the full-strength statement cannot be proved: it is refuted -/
theorem addr_in_range_full_refuted :
    ¬ (∀ (c : Cfg) (r : Regs) (i k : Nat), c.axi = false → r.base < r.end_ → r.end_ ≤ 2 ^ c.awidth →
        r.end_ - r.base = 2 ^ k → i < nWords c r → inRange c r (seqAddr c r i) = true) := by
  intro h
  have := h witnessCfg witnessRegs 1 2 rfl (by decide) (by decide) (by decide) (by decide)
  rw [addr_out_of_range_witness.2.2] at this
  exact Bool.noConfusion this

/-! ### non-vacuity: concrete runs meeting the hypotheses above -/
example : 1 ≤ nWords witnessCfg witnessRegs ∧ witnessCfg.aw ≤ 32 := by decide
example : GInv witnessCfg witnessRegs {} 0 := ⟨rfl, rfl, rfl⟩
example : ∃ (c : Cfg) (r : Regs) (k : Nat), c.axi = false ∧ c.ashift = 0 ∧ r.base < r.end_ ∧ r.end_ ≤ 2 ^ c.awidth ∧ r.end_ - r.base = 2 ^ k :=
  ⟨{ dw := 8, aw := 8, axi := false, ashift := 0 }, { base := 16, end_ := 32, length := 10, randomData := true, randomAddr := true }, 4,
   rfl, rfl, by decide, by decide, by decide⟩

end C14
