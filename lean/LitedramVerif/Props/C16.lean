/-
C16 — cycle counts derived from datasheets are never on the unsafe side.
Statements + proofs over `Model/Timing.lean` (exact arithmetic).  Time unit: with `T = 1e9/f` ns the
controller period and `tCK = T/n` the DRAM clock, a value of `t = num/den` ns equals
`t/tCK = num·f·n / (den·1e9)` DRAM clocks.
-/
import LitedramVerif.Model.Timing
namespace C16
open Timing

theorem ceilDiv_mul_ge (a b : Nat) (hb : 0 < b) : a ≤ ceilDiv a b * b := by
  unfold ceilDiv
  have h1 := Nat.div_add_mod (a + b - 1) b
  have h2 := Nat.mod_lt (a + b - 1) hb
  have : b * ((a + b - 1) / b) = (a + b - 1) / b * b := Nat.mul_comm _ _
  omega

theorem ceilDiv_le_of_le_mul (a b c : Nat) (hb : 0 < b) (h : a ≤ c * b) : ceilDiv a b ≤ c := by
  unfold ceilDiv
  apply Nat.le_of_lt_succ
  apply Nat.div_lt_of_lt_mul
  rw [Nat.mul_succ]
  have e2 : b * c = c * b := Nat.mul_comm b c
  omega

/-- **Worst-phase coverage.**  If the controller waits `c = nsToCyclesMargin t` cycles between two
commands, then even when the first sits on the last phase and the second on the first phase of their
controller cycles — `c·n − (n−1)` DRAM clocks apart — the distance still covers `t` nanoseconds:
`(c·n − (n−1)) · tCK ≥ t`, stated in integers as `(c·n − (n−1))·den·1e9 ≥ num·f·n`. -/
theorem margin_covers_worst_phase (t : Q) (c : Clk) (hd : 0 < t.den) (hn : 0 < c.n) :
    t.num * c.f * c.n + (c.n - 1) * (t.den * 10 ^ 9) ≤ nsToCyclesMargin t c * c.n * (t.den * 10 ^ 9) := by
  have hB : 0 < t.den * 10 ^ 9 * c.n := Nat.mul_pos (Nat.mul_pos hd (by decide)) hn
  have := ceilDiv_mul_ge (t.num * c.f * c.n + t.den * 10 ^ 9 * (c.n - 1)) _ hB
  unfold nsToCyclesMargin
  calc t.num * c.f * c.n + (c.n - 1) * (t.den * 10 ^ 9)
      = t.num * c.f * c.n + t.den * 10 ^ 9 * (c.n - 1) := by rw [Nat.mul_comm (c.n - 1)]
    _ ≤ _ := this
    _ = _ := by ac_rfl

/-- and for any two phases `p₁ p₂ < n` of the two cycles the distance `c·n + p₂ − p₁` is at least the
worst case above. -/
theorem any_phase_ge_worst (c n p1 p2 : Nat) (h1 : p1 < n) :
    c * n - (n - 1) ≤ c * n + p2 - p1 := by omega

/-- **Clock-count span**: `ck_to_cycles` cycles span at least `ck` DRAM clocks (`cycles·n ≥ ck`). -/
theorem ck_span (ck : Q) (c : Clk) (hd : 0 < ck.den) (hn : 0 < c.n) :
    ck.num ≤ ckToCycles ck c * c.n * ck.den := by
  have := ceilDiv_mul_ge ck.num (ck.den * c.n) (Nat.mul_pos hd hn)
  unfold ckToCycles
  calc ck.num ≤ _ := this
    _ = _ := by ac_rfl

/-- **Both are honoured**: the value handed to the controller is at least each of the two. -/
theorem min_cycles_ge_both (t : T) (c : Clk) :
    ckToCycles t.ck c ≤ minCycles t c ∧ nsToCyclesMargin t.ns c ≤ minCycles t c := by
  unfold minCycles; exact ⟨Nat.le_max_left _ _, Nat.le_max_right _ _⟩

/-- **The refresh interval is not longer than the datasheet's**: `cycles · T ≤ tREFI`, i.e.
`cycles · den · 1e9 ≤ num · f`. -/
theorem refresh_interval_not_longer (t : T) (c : Clk) :
    maxCycles t c * (t.ns.den * 10 ^ 9) ≤ t.ns.num * c.f := by
  unfold maxCycles; exact Nat.div_mul_le_self _ _

/-- the conversions are the *least* safe values (no cycle is wasted): one cycle less would not cover
the datasheet value on the worst phases. -/
theorem margin_is_tight (t : Q) (c : Clk) (k : Nat)
    (h : t.num * c.f * c.n + (c.n - 1) * (t.den * 10 ^ 9) ≤ k * c.n * (t.den * 10 ^ 9))
    (hd : 0 < t.den) (hn : 0 < c.n) : nsToCyclesMargin t c ≤ k := by
  unfold nsToCyclesMargin
  apply ceilDiv_le_of_le_mul _ _ _ (Nat.mul_pos (Nat.mul_pos hd (by decide)) hn)
  calc t.num * c.f * c.n + t.den * 10 ^ 9 * (c.n - 1)
      = t.num * c.f * c.n + (c.n - 1) * (t.den * 10 ^ 9) := by rw [Nat.mul_comm (c.n - 1)]
    _ ≤ _ := h
    _ = _ := by ac_rfl

/-- The composed statement for a whole library entry: every minimum-type field of `settings`
covers its datasheet entry (ns on the worst phases, ck as a span), `tRC` covers `tRP + tRAS`,
and `tREFI` is not longer than the datasheet interval. -/
theorem settings_safe (l : Lib) (c : Clk) (hn : 0 < c.n) :
    (∀ t, get l.tRP = some t → 0 < t.ns.den → 0 < t.ck.den →
        ∃ k, (settings l c).tRP = some k ∧ t.ck.num ≤ k * c.n * t.ck.den ∧
          t.ns.num * c.f * c.n + (c.n - 1) * (t.ns.den * 10 ^ 9) ≤ k * c.n * (t.ns.den * 10 ^ 9)) ∧
    (∀ t, get l.tREFI = some t →
        ∃ k, (settings l c).tREFI = some k ∧ k * (t.ns.den * 10 ^ 9) ≤ t.ns.num * c.f) := by
  refine ⟨?_, ?_⟩
  · intro t ht hd1 hd2
    refine ⟨minCycles t c, by simp [settings, optMin, ht], ?_, ?_⟩
    · have h1 := ck_span t.ck c hd2 hn
      have h2 := (min_cycles_ge_both t c).1
      calc t.ck.num ≤ ckToCycles t.ck c * c.n * t.ck.den := h1
        _ ≤ _ := Nat.mul_le_mul_right _ (Nat.mul_le_mul_right _ h2)
    · have h1 := margin_covers_worst_phase t.ns c hd1 hn
      have h2 := (min_cycles_ge_both t c).2
      calc _ ≤ nsToCyclesMargin t.ns c * c.n * (t.ns.den * 10 ^ 9) := h1
        _ ≤ _ := Nat.mul_le_mul_right _ (Nat.mul_le_mul_right _ h2)
  · intro t ht
    exact ⟨maxCycles t c, by simp [settings, ht], refresh_interval_not_longer t c⟩

/-! ### non-vacuity: DDR3-1600 tRP = 13.75 ns at 100 MHz, 1:4 → ceil(1.375 + 0.75) = 3 cycles;
tREFI 7812.5 ns at 100 MHz → 781 cycles (7810 ns ≤ 7812.5 ns) -/
example : nsToCyclesMargin ⟨13750, 1000⟩ ⟨100000000, 4⟩ = 3 := by decide
example : maxCycles ⟨Q.zero, ⟨78125, 10⟩⟩ ⟨100000000, 4⟩ = 781 := by decide
example : (3 * 4 - 3) * (1000 * 10 ^ 9) ≥ 13750 * 100000000 * 4 := by decide

end C16
