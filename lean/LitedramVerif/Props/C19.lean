/-
C19 — the bundled DRAM simulation model agrees with an independent DRAM model.

`Model/SimPhy.lean` transcribes litedram/phy/model.py and is co-simulated against it; `Spec/DramData.lean`
is the independent reference.  Proved here:
 * `word_index`       the model's flattened memory index `(row·ncols | col) >> log2(B)` is
                      `row·(ncols/B) + col/B`: rows and bursts never alias (for every geometry)
 * `column_decode`    the model's column (after the A10 fix) is the reference's JEDEC column
 * `read_latency_exact` the read strobe and data shown in cycle t + read_latency are exactly what the commands of cycle t
                      fetched (generic delay-line lemma `pipe_delay`), for every trace and configuration
 * `bank_refines`     under legal commands (at most one command per bank per cycle, ACT only on a bank the
                      reference holds precharged) "reference bank open on row r ⇒ model bank active on row r"
                      is an inductive invariant — including after auto-precharge, which the model ignores
The complete statement (same read data at the read latency, same final memory, for every legal trace) is
`simphy_equals_reference_full`; it is evaluated by the check on random legal traces against the
implementation and the transcription, not proved.
-/
import LitedramVerif.Model.SimPhy
import LitedramVerif.Spec.DramData
namespace C19

/-- `(row·N | col) >> k = row·(N/2^k) + col/2^k` for `col < N = 2^c`, `k ≤ c`: the model's word index
separates rows and bursts for every geometry -/
theorem word_index (row col c k : Nat) (hk : k ≤ c) (hcol : col < 2 ^ c) :
    ((row * 2 ^ c) ||| col) >>> k = row * 2 ^ (c - k) + col / 2 ^ k := by
  have hor : (row * 2 ^ c) ||| col = 2 ^ c * row + col := by
    rw [Nat.mul_comm]; exact (Nat.two_pow_add_eq_or_of_lt hcol row).symm
  have hsplit : 2 ^ c = 2 ^ k * 2 ^ (c - k) := by rw [← Nat.pow_add]; congr 1; omega
  rw [hor, Nat.shiftRight_eq_div_pow, hsplit, Nat.mul_assoc, Nat.mul_add_div (Nat.two_pow_pos k), Nat.mul_comm]

/-- two different (row, burst) pairs never share a memory word -/
theorem word_index_injective (r1 b1 r2 b2 w : Nat) (h1 : b1 < w) (h2 : b2 < w)
    (h : r1 * w + b1 = r2 * w + b2) : r1 = r2 ∧ b1 = b2 := by
  have hw : 0 < w := by omega
  have e1 : (r1 * w + b1) / w = r1 := by
    rw [Nat.mul_comm, Nat.mul_add_div hw, Nat.div_eq_of_lt h1, Nat.add_zero]
  have e2 : (r2 * w + b2) / w = r2 := by
    rw [Nat.mul_comm, Nat.mul_add_div hw, Nat.div_eq_of_lt h2, Nat.add_zero]
  have hr : r1 = r2 := by rw [← e1, ← e2, h]
  subst hr
  exact ⟨rfl, by omega⟩

/-- the model's column (with the A10 fix) is the reference's JEDEC column, for every address -/
theorem column_decode (colbits address : Nat) (sc : SimPhy.Cfg) (rc : DramData.Cfg)
    (h1 : sc.colbits = colbits) (h2 : rc.colbits = colbits) :
    SimPhy.colOf sc address = DramData.columnOf rc address := by
  simp [SimPhy.colOf, DramData.columnOf, h1, h2]

/-- what can happen to one bank in one controller cycle on a legal trace (one command per bank per cycle) -/
inductive BankCmd
  | none | act (row : Nat) | pre | cas (ap : Bool)

/-- the reference's view of the bank afterwards -/
def refNext (o : Option Nat) : BankCmd → Option Nat
  | .none => o
  | .act r => some r
  | .pre => Option.none
  | .cas ap => if ap then Option.none else o

/-- the model's `active`/`row` registers afterwards (`SimPhy.bankNext` with the decoded flags) -/
def simNext (active : Bool) (row : Nat) : BankCmd → Bool × Nat
  | .none => SimPhy.bankNext active row false false 0
  | .act r => SimPhy.bankNext active row false true r
  | .pre => SimPhy.bankNext active row true false 0
  | .cas _ => SimPhy.bankNext active row false false 0     -- the auto-precharge flag is ignored

/-- "reference bank open on row r ⇒ model bank active on row r" -/
def Refines (o : Option Nat) (active : Bool) (row : Nat) : Prop := ∀ r, o = some r → active = true ∧ row = r

/-- **Bank-state refinement**: the invariant is preserved by every legal bank event — in particular the
model's ignoring of auto-precharge is harmless, because a legal trace re-activates the bank (reloading
the row register) before it is used again. -/
theorem bank_refines (o : Option Nat) (active : Bool) (row : Nat) (cmd : BankCmd)
    (hlegal : ∀ r, cmd = .act r → o = none) (h : Refines o active row) :
    Refines (refNext o cmd) (simNext active row cmd).1 (simNext active row cmd).2 := by
  intro r hr
  cases cmd with
  | none => simpa [refNext, simNext, SimPhy.bankNext] using h r hr
  | act r' => simp [refNext] at hr; subst hr; simp [simNext, SimPhy.bankNext]
  | pre => simp [refNext] at hr
  | cas ap =>
    cases ap
    · simpa [refNext, simNext, SimPhy.bankNext] using h r (by simpa [refNext] using hr)
    · simp [refNext] at hr

/-- and whenever the reference allows an access (bank open on row r) the model reads/writes that row -/
theorem access_row (o : Option Nat) (active : Bool) (row r : Nat) (h : Refines o active row) (ho : o = some r) :
    active = true ∧ row = r := h r ho

/-- run both models on a trace and compare read outputs cycle by cycle -/
def agree (sc : SimPhy.Cfg) (rc : DramData.Cfg) : SimPhy.State → DramData.State → List (List SimPhy.Phase) → Bool
  | _, _, [] => true
  | ss, rs, ps :: rest =>
    let (ss', so) := SimPhy.step sc ss ps
    let (rs', ro) := DramData.step rc rs (ps.map fun p => { csN := p.csN, rasN := p.rasN, casN := p.casN, weN := p.weN, bank := p.bank,
                                                             address := p.address, wrdata := p.wrdata, wrdataMask := p.wrdataMask })
    (so.rddataValid == ro.valid) && (!ro.valid || so.rddata == ro.data) && agree sc rc ss' rs' rest

/-- legality of a trace, judged on the reference: no illegal command, at most one command per bank and
per kind in a controller cycle, no precharge/activate of a bank and no read of a location while a write to
it is still in the reference's write queue -/
def legalFrom (rc : DramData.Cfg) : DramData.State → List (List DramData.Phase) → Bool
  | _, [] => true
  | rs, ps :: rest =>
    let cmds := (ps.take rc.nphases).filterMap (DramData.decode rc)
    let bankOf : DramData.Cmd → Option Nat
      | .act b _ => some b | .pre b => some b | .wr b _ _ => some b | .rd b _ _ => some b | .prea => none
    let banks := cmds.filterMap bankOf
    let distinctBanks := banks.eraseDups.length == banks.length && (!cmds.contains .prea || cmds.length == 1)
    let disturb := cmds.any fun c =>
      match c with
      | .act b _ | .pre b => rs.wq.any (·.2.bank == b)
      | .prea => !rs.wq.isEmpty
      | .rd b col ap => rs.wq.any (fun w => w.2.bank == b && (ap || (DramData.rowOf rs.openRow b == some w.2.row && w.2.burst == col / rc.burstCols)))
      | .wr _ _ _ => false
    let rs' := (DramData.step rc rs ps).1
    distinctBanks && !disturb && rs'.err.isNone && legalFrom rc rs' rest

/-- the complete property — **not proved** (evaluated by the check on random legal traces against both the
implementation and the transcription): for matching configurations and every legal trace, the model
returns the reference's read data at the read latency. -/
def simphy_equals_reference_full : Prop :=
  ∀ (sc : SimPhy.Cfg) (rc : DramData.Cfg) (tr : List (List SimPhy.Phase)),
    sc.nphases = rc.nphases → sc.nbanks = rc.nbanks → sc.colbits = rc.colbits → sc.rowbits = rc.rowbits →
    sc.burst * sc.nphases = rc.burstCols → sc.writeLatency = rc.writeLatency → sc.readLatency = rc.readLatency →
    1 ≤ rc.readLatency →
    legalFrom rc (DramData.init fun _ => 0) (tr.map fun ps => ps.map fun p =>
      { csN := p.csN, rasN := p.rasN, casN := p.casN, weN := p.weN, bank := p.bank, address := p.address, wrdata := p.wrdata,
        wrdataMask := p.wrdataMask }) = true →
    agree sc rc (SimPhy.init sc fun _ => #[]) (DramData.init fun _ => 0) tr = true

section latency
open SimPhy
/-! ### a delay line of length L -/
def pipeStep {α : Type} (L : Nat) (d : α) (p : List α) (x : α) : List α × α := ((x :: p).take L, (x :: p).getD L d)

def pipeRun {α : Type} (L : Nat) (d : α) : List α → List α → List α
  | _, [] => []
  | p, x :: xs => (pipeStep L d p x).2 :: pipeRun L d (pipeStep L d p x).1 xs

theorem take_cons_take {α : Type} (L : Nat) (x : α) (l : List α) : (x :: l.take L).take L = (x :: l).take L := by
  cases L with
  | zero => rfl
  | succ L => simp [List.take_take]

theorem getD_cons_take {α : Type} (L : Nat) (d x : α) (l : List α) : (x :: l.take L).getD L d = (x :: l).getD L d := by
  cases L with
  | zero => rfl
  | succ L =>
    simp only [List.getD_cons_succ]
    simp [List.getD_eq_getElem?_getD, List.getElem?_take]

theorem pipeRun_eq {α : Type} (L : Nat) (d : α) (p : List α) (xs : List α) :
    ∀ acc : List α, pipeRun L d ((acc ++ p).take L) xs =
      (List.range xs.length).map (fun j => (((xs.take (j + 1)).reverse ++ acc ++ p)).getD L d) := by
  induction xs with
  | nil => intro acc; rfl
  | cons x xs ih =>
    intro acc
    simp only [pipeRun, pipeStep, List.length_cons, List.range_succ_eq_map, List.map_cons, List.map_map]
    rw [take_cons_take, getD_cons_take]
    have := ih (x :: acc)
    simp only [List.cons_append] at this
    rw [this]
    congr 1
    · apply List.map_congr_left
      intro j _
      simp [List.take_succ_cons, List.reverse_cons, List.append_assoc]

/-- **what leaves a delay line of length `L` at step `t + L` is what entered at step `t`** -/
theorem pipe_delay {α : Type} (L : Nat) (d : α) (xs p : List α) (hp : p.length = L) (t : Nat) (ht : t + L < xs.length) :
    (pipeRun L d p xs).getD (t + L) d = xs.getD t d := by
  have h := pipeRun_eq L d p xs []
  simp only [List.nil_append] at h
  rw [List.take_of_length_le (by omega)] at h
  rw [h]
  rw [List.getD_eq_getElem?_getD, List.getElem?_map, List.getElem?_range (by omega)]
  simp only [Option.map_some, Option.getD_some, List.append_nil]
  rw [List.getD_eq_getElem?_getD, List.getElem?_append_left (by simp; omega)]
  rw [List.getElem?_reverse (by simp; omega)]
  simp only [List.length_take]
  have e : min (t + L + 1) xs.length - 1 - L = t := by omega
  rw [e, List.getElem?_take_of_lt (by omega), List.getD_eq_getElem?_getD]

/-! ### the model's read path -/
/-- the read data a cycle's commands fetch: what the model would output in that very cycle with a read latency of 0 -/
def readNow (c : Cfg) (s : State) (ph : List Phase) : Bool × Nat :=
  let o := (step { c with readLatency := 0 } { s with rpipe := [] } ph).2
  (o.rddataValid, o.rddata)

theorem step_read (c : Cfg) (s : State) (ph : List Phase) :
    (step c s ph).1.rpipe = (pipeStep c.readLatency (false, 0) s.rpipe (readNow c s ph)).1 ∧
    ((step c s ph).2.rddataValid, (step c s ph).2.rddata) = (pipeStep c.readLatency (false, 0) s.rpipe (readNow c s ph)).2 ∧
    (step c s ph).1.banks = (step { c with readLatency := 0 } { s with rpipe := [] } ph).1.banks := by
  refine ⟨rfl, rfl, rfl⟩

def outs (c : Cfg) : State → List (List Phase) → List (Bool × Nat)
  | _, [] => []
  | s, ph :: rest => ((step c s ph).2.rddataValid, (step c s ph).2.rddata) :: outs c (step c s ph).1 rest

def fetched (c : Cfg) : State → List (List Phase) → List (Bool × Nat)
  | _, [] => []
  | s, ph :: rest => readNow c s ph :: fetched c (step c s ph).1 rest

theorem outs_eq_pipe (c : Cfg) (tr : List (List Phase)) :
    ∀ s : State, outs c s tr = pipeRun c.readLatency (false, 0) s.rpipe (fetched c s tr) := by
  induction tr with
  | nil => intro s; rfl
  | cons ph rest ih =>
    intro s
    obtain ⟨h1, h2, _⟩ := step_read c s ph
    simp only [outs, fetched, pipeRun]
    rw [ih, h1, h2]

theorem fetched_length (c : Cfg) (tr : List (List Phase)) : ∀ s, (fetched c s tr).length = tr.length := by
  induction tr with
  | nil => intro s; rfl
  | cons ph rest ih => intro s; simp [fetched, ih]

/-- **Read data is returned exactly `read_latency` cycles after the READ** (every trace, every configuration): the
`rddata_valid` / `rddata` the model shows in cycle `t + read_latency` are the read strobe and the memory word the commands
of cycle `t` fetched - nothing is lost, duplicated or reordered in the latency pipeline. -/
theorem read_latency_exact (c : Cfg) (s : State) (hs : s.rpipe.length = c.readLatency) (tr : List (List Phase)) (t : Nat)
    (ht : t + c.readLatency < tr.length) :
    (outs c s tr).getD (t + c.readLatency) (false, 0) = (fetched c s tr).getD t (false, 0) := by
  rw [outs_eq_pipe]
  exact pipe_delay _ _ _ _ hs t (by rw [fetched_length]; exact ht)

end latency

/-! ### non-vacuity -/
example : ((5 * 2 ^ 6) ||| 43) >>> 3 = 5 * 2 ^ 3 + 43 / 8 := by decide
example : Refines (some 7) true 7 := by intro r h; simp at h; exact ⟨rfl, h⟩

end C19
