/-
C19 — the bundled DRAM simulation model agrees with an independent DRAM model.

`Model/SimPhy.lean` transcribes litedram/phy/model.py and is co-simulated against it; `Spec/DramData.lean`
is the independent reference.  Proved here:
 * `word_index`       the model's flattened memory index `(row·ncols | col) >> log2(B)` is
                      `row·(ncols/B) + col/B`: rows and bursts never alias (for every geometry)
 * `column_decode`    the model's column (after the A10 fix) is the reference's JEDEC column
 * `bank_refines`     under legal commands (at most one command per bank per cycle, ACT only on a bank the
                      reference holds precharged) "reference bank open on row r ⇒ model bank active on row r"
                      is an inductive invariant — including after auto-precharge, which the model ignores
The complete statement (same read data at the read latency, same final memory, for every legal trace) is
`simphy_equals_reference_full`; it is evaluated by the check on random legal traces against the
implementation and the transcription, not proved.
-/
import LitedramVerif.Model.SimPhy
import LitedramVerif.Spec.DramData
namespace C19

/-- `(row·N | col) >> k = row·(N/2^k) + col/2^k` for `col < N = 2^c`, `k ≤ c`: the model's word index
separates rows and bursts for every geometry -/
theorem word_index (row col c k : Nat) (hk : k ≤ c) (hcol : col < 2 ^ c) :
    ((row * 2 ^ c) ||| col) >>> k = row * 2 ^ (c - k) + col / 2 ^ k := by
  have hor : (row * 2 ^ c) ||| col = 2 ^ c * row + col := by
    rw [Nat.mul_comm]; exact (Nat.two_pow_add_eq_or_of_lt hcol row).symm
  have hsplit : 2 ^ c = 2 ^ k * 2 ^ (c - k) := by rw [← Nat.pow_add]; congr 1; omega
  rw [hor, Nat.shiftRight_eq_div_pow, hsplit, Nat.mul_assoc, Nat.mul_add_div (Nat.two_pow_pos k), Nat.mul_comm]

/-- two different (row, burst) pairs never share a memory word -/
theorem word_index_injective (r1 b1 r2 b2 w : Nat) (h1 : b1 < w) (h2 : b2 < w)
    (h : r1 * w + b1 = r2 * w + b2) : r1 = r2 ∧ b1 = b2 := by
  have hw : 0 < w := by omega
  have e1 : (r1 * w + b1) / w = r1 := by
    rw [Nat.mul_comm, Nat.mul_add_div hw, Nat.div_eq_of_lt h1, Nat.add_zero]
  have e2 : (r2 * w + b2) / w = r2 := by
    rw [Nat.mul_comm, Nat.mul_add_div hw, Nat.div_eq_of_lt h2, Nat.add_zero]
  have hr : r1 = r2 := by rw [← e1, ← e2, h]
  subst hr
  exact ⟨rfl, by omega⟩

/-- the model's column (with the A10 fix) is the reference's JEDEC column, for every address -/
theorem column_decode (colbits address : Nat) (sc : SimPhy.Cfg) (rc : DramData.Cfg)
    (h1 : sc.colbits = colbits) (h2 : rc.colbits = colbits) :
    SimPhy.colOf sc address = DramData.columnOf rc address := by
  simp [SimPhy.colOf, DramData.columnOf, h1, h2]

/-- what can happen to one bank in one controller cycle on a legal trace (one command per bank per cycle) -/
inductive BankCmd
  | none | act (row : Nat) | pre | cas (ap : Bool)

/-- the reference's view of the bank afterwards -/
def refNext (o : Option Nat) : BankCmd → Option Nat
  | .none => o
  | .act r => some r
  | .pre => Option.none
  | .cas ap => if ap then Option.none else o

/-- the model's `active`/`row` registers afterwards (`SimPhy.bankNext` with the decoded flags) -/
def simNext (active : Bool) (row : Nat) : BankCmd → Bool × Nat
  | .none => SimPhy.bankNext active row false false 0
  | .act r => SimPhy.bankNext active row false true r
  | .pre => SimPhy.bankNext active row true false 0
  | .cas _ => SimPhy.bankNext active row false false 0     -- the auto-precharge flag is ignored

/-- "reference bank open on row r ⇒ model bank active on row r" -/
def Refines (o : Option Nat) (active : Bool) (row : Nat) : Prop := ∀ r, o = some r → active = true ∧ row = r

/-- **Bank-state refinement**: the invariant is preserved by every legal bank event — in particular the
model's ignoring of auto-precharge is harmless, because a legal trace re-activates the bank (reloading
the row register) before it is used again. -/
theorem bank_refines (o : Option Nat) (active : Bool) (row : Nat) (cmd : BankCmd)
    (hlegal : ∀ r, cmd = .act r → o = none) (h : Refines o active row) :
    Refines (refNext o cmd) (simNext active row cmd).1 (simNext active row cmd).2 := by
  intro r hr
  cases cmd with
  | none => simpa [refNext, simNext, SimPhy.bankNext] using h r hr
  | act r' => simp [refNext] at hr; subst hr; simp [simNext, SimPhy.bankNext]
  | pre => simp [refNext] at hr
  | cas ap =>
    cases ap
    · simpa [refNext, simNext, SimPhy.bankNext] using h r (by simpa [refNext] using hr)
    · simp [refNext] at hr

/-- and whenever the reference allows an access (bank open on row r) the model reads/writes that row -/
theorem access_row (o : Option Nat) (active : Bool) (row r : Nat) (h : Refines o active row) (ho : o = some r) :
    active = true ∧ row = r := h r ho

/-- run both models on a trace and compare read outputs cycle by cycle -/
def agree (sc : SimPhy.Cfg) (rc : DramData.Cfg) : SimPhy.State → DramData.State → List (List SimPhy.Phase) → Bool
  | _, _, [] => true
  | ss, rs, ps :: rest =>
    let (ss', so) := SimPhy.step sc ss ps
    let (rs', ro) := DramData.step rc rs (ps.map fun p => { csN := p.csN, rasN := p.rasN, casN := p.casN, weN := p.weN, bank := p.bank,
                                                             address := p.address, wrdata := p.wrdata, wrdataMask := p.wrdataMask })
    (so.rddataValid == ro.valid) && (!ro.valid || so.rddata == ro.data) && agree sc rc ss' rs' rest

/-- legality of a trace, judged on the reference: no illegal command, at most one command per bank and
per kind in a controller cycle, no precharge/activate of a bank and no read of a location while a write to
it is still in the reference's write queue -/
def legalFrom (rc : DramData.Cfg) : DramData.State → List (List DramData.Phase) → Bool
  | _, [] => true
  | rs, ps :: rest =>
    let cmds := (ps.take rc.nphases).filterMap (DramData.decode rc)
    let bankOf : DramData.Cmd → Option Nat
      | .act b _ => some b | .pre b => some b | .wr b _ _ => some b | .rd b _ _ => some b | .prea => none
    let banks := cmds.filterMap bankOf
    let distinctBanks := banks.eraseDups.length == banks.length && (!cmds.contains .prea || cmds.length == 1)
    let disturb := cmds.any fun c =>
      match c with
      | .act b _ | .pre b => rs.wq.any (·.2.bank == b)
      | .prea => !rs.wq.isEmpty
      | .rd b col ap => rs.wq.any (fun w => w.2.bank == b && (ap || (DramData.rowOf rs.openRow b == some w.2.row && w.2.burst == col / rc.burstCols)))
      | .wr _ _ _ => false
    let rs' := (DramData.step rc rs ps).1
    distinctBanks && !disturb && rs'.err.isNone && legalFrom rc rs' rest

/-- the complete property — **not proved** (evaluated by the check on random legal traces against both the
implementation and the transcription): for matching configurations and every legal trace, the model
returns the reference's read data at the read latency. -/
def simphy_equals_reference_full : Prop :=
  ∀ (sc : SimPhy.Cfg) (rc : DramData.Cfg) (tr : List (List SimPhy.Phase)),
    sc.nphases = rc.nphases → sc.nbanks = rc.nbanks → sc.colbits = rc.colbits → sc.rowbits = rc.rowbits →
    sc.burst * sc.nphases = rc.burstCols → sc.writeLatency = rc.writeLatency → sc.readLatency = rc.readLatency →
    1 ≤ rc.readLatency →
    legalFrom rc (DramData.init fun _ => 0) (tr.map fun ps => ps.map fun p =>
      { csN := p.csN, rasN := p.rasN, casN := p.casN, weN := p.weN, bank := p.bank, address := p.address, wrdata := p.wrdata,
        wrdataMask := p.wrdataMask }) = true →
    agree sc rc (SimPhy.init sc fun _ => #[]) (DramData.init fun _ => 0) tr = true

/-! ### non-vacuity -/
example : ((5 * 2 ^ 6) ||| 43) >>> 3 = 5 * 2 ^ 3 + 43 / 8 := by decide
example : Refines (some 7) true 7 := by intro r h; simp at h; exact ⟨rfl, h⟩

end C19
