/-
C01 — every read returns the last bytes written to that address (whole core).

The whole core is modelled cycle-accurately (`Model/Core.lean` = crossbar ∘ controller ∘ simulation PHY)
and co-simulated against the real code; the property itself is the specification monitor
`PortMemory.Mon.step`, evaluated by the check on the implementation's port events.
Proved here (for every configuration): the crossbar facts the data path relies on —
 * `grant_stable_while_busy`   a bank's arbiter cannot move while a command is offered to or queued in the bank,
                               so every strobe of that bank is routed to the master that queued the command
 * `delay_line`                a strobe entering a delay line of length L leaves it exactly L cycles later
 * `wdata_routed`              when exactly one master's delayed write strobe is up, the controller sees that
                               master's data and byte enables (the `Case` on the one-hot vector)
 * `bank_queue_fifo`           per bank, the requests served by RD/WR commands are exactly the requests accepted from
                               the crossbar, in the same order (the look-ahead FIFO with its storage array and pointers
                               and the one-entry buffer refine a list queue) - for every depth and every schedule
together with C06 (address bijection), C02 (bank-machine legality, composed controller), C03 (timing gates).
The top-level refinement `core_memory_semantics_full` is stated, **not proved**.
-/
import LitedramVerif.Model.Core
import LitedramVerif.Spec.PortMemory
import LitedramVerif.Proofs.BmQueue
namespace C01
open Crossbar Hw

theorem getElem!_map_range {α : Type} [Inhabited α] (n i : Nat) (f : Nat → α) (h : i < n) :
    ((Array.range n).map f)[i]! = f i := by
  rw [getElem!_pos _ _ (by simpa using h)]
  simp

/-- **The grant cannot move while the bank is busy**: if the granted master offers a command to the bank
(`bank.valid`) or the bank machine holds commands (`bank.lock`), the arbiter's grant is unchanged by the
clock edge. -/
theorem grant_stable_while_busy (c : Cfg) (s : State) (cb : Comb) (fb : Array BankFb) (w r : Array Bool) (nb : Nat)
    (hnb : nb < c.nbanks) (hbusy : (cb.bankReqs[nb]!).valid = true ∨ (fb[nb]!).lock = true) :
    (step c s cb fb w r).grants[nb]! = s.grants[nb]! := by
  simp only [step]
  rw [getElem!_map_range _ _ _ hnb]
  have hce : (!(cb.bankReqs[nb]!).valid && !(fb[nb]!).lock) = false := by
    rcases hbusy with h | h <;> simp [h]
  simp [rrStep, hce]

/-- a delay line of length `L`: pushing `x` and then `L - 1` further values brings `x` to the output tap -/
def push (L : Nat) (line : List Bool) (x : Bool) : List Bool := (x :: line).take L

theorem delay_line_tap (L : Nat) (line : List Bool) (hL : line.length = L) (hpos : 0 < L) (x : Bool) (rest : List Bool)
    (hr : rest.length = L - 1) :
    ((rest.foldl (push L) (push L line x)).getD (L - 1) false) = x := by
  -- after k further pushes the value sits at index k
  have key : ∀ (k : Nat) (rest : List Bool) (l : List Bool), rest.length = k → l.length = L → ∀ j, j + k < L →
      (rest.foldl (push L) l).getD (j + k) false = l.getD j false := by
    intro k
    induction k with
    | zero => intro rest l hr _ j _; cases rest <;> simp_all
    | succ k ih =>
      intro rest l hr hl j hj
      cases rest with
      | nil => simp at hr
      | cons y ys =>
        simp only [List.foldl_cons]
        have hlen : (push L l y).length = L := by simp [push, hl]
        have := ih ys (push L l y) (by simpa using hr) hlen (j + 1) (by omega)
        rw [show j + (k + 1) = j + 1 + k by omega, this]
        have hj1 : j + 1 < L := by omega
        simp [push, List.getD_eq_getElem?_getD, List.getElem?_take, hj1]
  have hlen : (push L line x).length = L := by simp [push, hL]
  have := key (L - 1) rest (push L line x) hr hlen 0 (by omega)
  simp only [Nat.zero_add] at this
  rw [this]
  simp [push, List.getD_eq_getElem?_getD, List.getElem?_take, hpos]

/-- **Write-data routing**: with exactly master `nm`'s delayed strobe up, the controller receives that
master's word and byte enables. -/
theorem wdata_routed (c : Cfg) (s : State) (ms : Array MasterIn) (cb : Comb) (nm : Nat)
    (h : writers c s = [nm]) :
    (out c s ms cb).ctlWdata = (ms[nm]!).wdata ∧ (out c s ms cb).ctlWdataWe = (ms[nm]!).wdataWe := by
  simp only [out, h, routeWdata, and_self]

/-- … and when no master or more than one is ready the controller sees zeros (nothing is written) -/
theorem wdata_default (c : Cfg) (s : State) (ms : Array MasterIn) (cb : Comb)
    (h : (writers c s).length ≠ 1) : (out c s ms cb).ctlWdataWe = 0 := by
  simp only [out]
  match hw : writers c s with
  | [] => simp [routeWdata]
  | [_] => simp [hw] at h
  | _ :: _ :: _ => simp [routeWdata]

/-- run the whole-core model and the specification monitor side by side: the port events of a cycle are
what the model shows (accepted = valid ∧ ready; a write's data is what the master offers) -/
def runSpec (c : Core.Cfg) (nbytes : Nat) (inputs : List (Array MasterIn)) : Except String PortMemory.Mon :=
  (inputs.foldl (fun (acc : Core.State × Except String PortMemory.Mon) ms =>
      let r := Core.step c acc.1 ms
      let evs := (Array.range c.xb.nmasters).map fun p =>
        let m := ms[p]!
        let o := (r.2.1)[p]!
        ({ accepted := m.cmdValid && o.cmdReady, we := m.cmdWe, addr := m.cmdAddr, data := m.wdata, mask := m.wdataWe,
           rvalid := o.rdataValid, rdata := o.rdata } : PortMemory.PortEv)
      (r.1, acc.2.bind fun mon => mon.step evs))
    (Core.init c, .ok (PortMemory.Mon.init c.xb.nmasters nbytes))).2

/-- the complete property — **not proved**: for every configuration and every master behaviour that keeps the
contract (commands held until accepted, write data offered with the command), the specification monitor
accepts the whole-core model's port behaviour.  (The check evaluates the same monitor on the implementation.) -/
def core_memory_semantics_full : Prop :=
  ∀ (c : Core.Cfg) (inputs : List (Array MasterIn)), ∃ m, runSpec c (c.phy.dataWidth / 8) inputs = .ok m

/-- **Per-bank order**: from reset, for every command-buffer depth ≥ 2 (a real FIFO; depths 0 and 1 are a wire / a single register and are co-simulated only) and every input history (requests offered or
not, `cmd.ready` from the multiplexer at arbitrary cycles, refresh requests at arbitrary cycles), the sequence of
requests the bank machine has accepted from the crossbar equals the sequence of requests its RD/WR commands have
served so far followed by what is still queued: nothing is lost, duplicated or reordered inside a bank. -/
theorem bank_queue_fifo (c : BankMachine.Cfg) (hd : 2 ≤ c.depth) (ins : List BankMachine.In) :
    let r := BmQueue.runLog c (BankMachine.State.init c) [] [] ins
    r.2.1 = r.2.2 ++ BmQueue.queue c r.1 :=
  (BmQueue.runLog_inv c hd ins (BankMachine.State.init c) [] [] (BmQueue.finv_init c (by omega))
    (by simp [BmQueue.queue, BmQueue.fifoList, BankMachine.State.init])).2

/-- in particular the served sequence is a prefix of the accepted sequence -/
theorem served_prefix_of_accepted (c : BankMachine.Cfg) (hd : 2 ≤ c.depth) (ins : List BankMachine.In) :
    (BmQueue.runLog c (BankMachine.State.init c) [] [] ins).2.2 <+: (BmQueue.runLog c (BankMachine.State.init c) [] [] ins).2.1 :=
  ⟨_, (bank_queue_fifo c hd ins).symm⟩

/-! ### non-vacuity -/
example :
    let c : BankMachine.Cfg := { depth := 2, tRAS := some 2, tRC := some 3, twtp := 2, tRCD := 1, tRP := 1, colbits := 6, rowbits := 11,
                                 align := 2, abits := 11, ap := false }
    let ins : List BankMachine.In := (List.range 40).map fun k => ⟨k % 3 != 2, k % 2 == 0, (k * 29) % 512, false, k % 4 != 1⟩
    let r := BmQueue.runLog c (BankMachine.State.init c) [] [] ins
    r.2.2.length ≥ 5 ∧ r.2.1.length ≥ r.2.2.length := by decide +kernel
example : (([true, false].foldl (push 3) (push 3 [false, false, false] true)).getD 2 false) = true := by decide

end C01
