/- C01 — theorems follow -/
import LitedramVerif.Model.Core
import LitedramVerif.Spec.PortMemory
namespace C01
theorem placeholder : True := trivial
end C01
