/-
C20 — LPDDR4/LPDDR5 PHYs translate each DFI command into the matching CA sequence.
-/
import LitedramVerif.Model.LpddrCmd
import LitedramVerif.Spec.JedecLpddr4
import LitedramVerif.Spec.JedecLpddr5
import LitedramVerif.Spec.LpddrExpect
import LitedramVerif.Proofs.LpddrSmall
namespace C20
open LpddrCmd LpddrExpect

theorem range3 : List.range 3 = [0,1,2] := by decide
theorem range6 : List.range 6 = [0,1,2,3,4,5] := by decide
theorem range7 : List.range 7 = [0,1,2,3,4,5,6] := by decide
theorem range8 : List.range 8 = [0,1,2,3,4,5,6,7] := by decide
theorem range17 : List.range 17 = [0,1,2,3,4,5,6,7,8,9,10,11,12,13,14,15,16] := by decide

section lpddr4
open JedecLpddr4

theorem mk4_act (d : Dfi) (v : Bool) :
    decode (mk4 "ACTIVATE-1" "ACTIVATE-2" v d).cs (mk4 "ACTIVATE-1" "ACTIVATE-2" v d).ca
      = some (.act (bits d.bank 0 3) (bits d.address 0 17)) := by
  simp [mk4, s4_ACTIVATE_1, s4_ACTIVATE_2, eval, decode, decodeSmall, combine, bits, range3, range17]

theorem mk4_rd (d : Dfi) (v : Bool) :
    decode (mk4 "READ-1" "CAS-2" v d).cs (mk4 "READ-1" "CAS-2" v d).ca
      = some (.rd (bits d.bank 0 3) (bits d.address 2 8) (d.address.testBit 10)) := by
  simp [mk4, s4_READ_1, s4_CAS_2, eval, decode, decodeSmall, combine, bits, range3, range8]

theorem mk4_wr (d : Dfi) (v : Bool) :
    decode (mk4 "WRITE-1" "CAS-2" v d).cs (mk4 "WRITE-1" "CAS-2" v d).ca
      = some (.wr (bits d.bank 0 3) (bits d.address 2 8) (d.address.testBit 10)) := by
  simp [mk4, s4_WRITE_1, s4_CAS_2, eval, decode, decodeSmall, combine, bits, range3, range8]

theorem mk4_mwr (d : Dfi) (v : Bool) :
    decode (mk4 "MASK WRITE-1" "CAS-2" v d).cs (mk4 "MASK WRITE-1" "CAS-2" v d).ca
      = some (.mwr (bits d.bank 0 3) (bits d.address 2 8) (d.address.testBit 10)) := by
  simp [mk4, s4_MASK_WRITE_1, s4_CAS_2, eval, decode, decodeSmall, combine, bits, range3, range8]

theorem mk4_pre (d : Dfi) (v : Bool) :
    decode (mk4 "DESELECT" "PRECHARGE" v d).cs (mk4 "DESELECT" "PRECHARGE" v d).ca
      = some (.pre (bits d.bank 0 3) (d.address.testBit 10)) := by
  simp [mk4, s4_DESELECT, s4_PRECHARGE, eval, decode, decodeSmall, single, bits, range3]

theorem mk4_ref (d : Dfi) (v : Bool) :
    decode (mk4 "DESELECT" "REFRESH" v d).cs (mk4 "DESELECT" "REFRESH" v d).ca
      = some (.ref (bits d.bank 0 3) (d.address.testBit 10)) := by
  simp [mk4, s4_DESELECT, s4_REFRESH, eval, decode, decodeSmall, single, bits, range3]

theorem mk4_mpc (d : Dfi) (v : Bool) :
    decode (mk4 "DESELECT" "MPC" v d).cs (mk4 "DESELECT" "MPC" v d).ca
      = some (.mpc (bits d.address 0 7)) := by
  simp [mk4, s4_DESELECT, s4_MPC, eval, decode, decodeSmall, single, bits, range7]

theorem mk4_mrr (d : Dfi) (v : Bool) :
    decode (mk4 "MRR-1" "CAS-2" v d).cs (mk4 "MRR-1" "CAS-2" v d).ca
      = some (.mrr (bits d.address 0 6)) := by
  simp [mk4, s4_MRR_1, s4_CAS_2, eval, decode, decodeSmall, combine, bits, range6]

theorem mk4_mrw (d : Dfi) (v : Bool) :
    decode (mk4 "MRW-1" "MRW-2" v d).cs (mk4 "MRW-1" "MRW-2" v d).ca
      = some (.mrw (bits d.bank 0 6) (bits d.address 0 8)) := by
  simp [mk4, s4_MRW_1, s4_MRW_2, eval, decode, decodeSmall, combine, bits, range6, range8]

theorem mk4_des (d : Dfi) (v : Bool) :
    decode (mk4 "DESELECT" "DESELECT" v d).cs (mk4 "DESELECT" "DESELECT" v d).ca = none := by
  simp [mk4, s4_DESELECT, decode]

end lpddr4

/-- **LPDDR4 round trip**: for every DFI phase value (any address, bank, command bits, masked or not)
the CS/CA sequence the adapter emits decodes, by the JEDEC truth table, to exactly the requested
operation with the same bank, row/column, AP/AB flag and mode-register operands (and to nothing —
all CS low — when the phase carries no command); the adapter flags `valid` exactly when there is an
operation. -/
theorem lpddr4_roundtrip (masked : Bool) (d : Dfi) :
    JedecLpddr4.decode (adapter4 masked d).cs (adapter4 masked d).ca = expected4 masked d ∧
    (adapter4 masked d).valid = (expected4 masked d).isSome := by
  unfold adapter4 expected4 select4
  by_cases hcs : d.csN = true
  · simp only [hcs, if_true]; exact ⟨mk4_des d false, by simp [mk4]⟩
  · simp only [hcs, Bool.false_eq_true, if_false]
    have hlt : dfiCmd d < 8 := by
      unfold dfiCmd; cases d.weN <;> cases d.rasN <;> cases d.casN <;> decide
    generalize dfiCmd d = c at hlt
    have : c = 0 ∨ c = 1 ∨ c = 2 ∨ c = 3 ∨ c = 4 ∨ c = 5 ∨ c = 6 ∨ c = 7 := by omega
    rcases this with h | h | h | h | h | h | h | h <;> subst h <;> simp only []
    · exact ⟨mk4_des d false, by simp [mk4]⟩
    · by_cases hb0 : d.bank = 0
      · simp only [hb0, if_true]; exact ⟨mk4_mpc d true, by simp [mk4]⟩
      · by_cases hb1 : d.bank = 1
        · simp only [hb1, if_true]; exact ⟨by simpa using mk4_mrr d true, by simp [mk4]⟩
        · simp only [hb0, hb1, if_false]; exact ⟨mk4_des d false, by simp [mk4]⟩
    · exact ⟨mk4_act d true, by simp [mk4]⟩
    · exact ⟨mk4_pre d true, by simp [mk4]⟩
    · exact ⟨mk4_rd d true, by simp [mk4]⟩
    · cases masked
      · exact ⟨mk4_wr d true, by simp [mk4]⟩
      · exact ⟨mk4_mwr d true, by simp [mk4]⟩
    · exact ⟨mk4_ref d true, by simp [mk4]⟩
    · exact ⟨mk4_mrw d true, by simp [mk4]⟩

/-! ## LPDDR5 -/

theorem range4 : List.range 4 = [0,1,2,3] := by decide
theorem range18 : List.range 18 = [0,1,2,3,4,5,6,7,8,9,10,11,12,13,14,15,16,17] := by decide

section lpddr5
open JedecLpddr5

theorem mk5_act (d : Dfi) (v : Bool) (w : Nat) :
    decode (mk5 "ACT-1" "ACT-2" v w d).cs (mk5 "ACT-1" "ACT-2" v w d).ca
      = some (.act (bits d.bank 0 4) (bits d.address 0 18)) := by
  simp [mk5, s5_ACT_1, s5_ACT_2, eval, decode, decodeSmall, combine, bits, range4, range18]

theorem mk5_rd (d : Dfi) (v : Bool) (w : Nat) :
    decode (mk5 "CAS" "RD16" v w d).cs (mk5 "CAS" "RD16" v w d).ca
      = some (.rd (bits d.bank 0 4) (bits d.address 4 6) (d.address.testBit 10) (w == 1, w == 2, w == 3)) := by
  simp [mk5, s5_CAS, s5_RD16, eval, decode, decodeSmall, combine, bits, range4, range6]

theorem mk5_wr (d : Dfi) (v : Bool) (w : Nat) :
    decode (mk5 "CAS" "WR16" v w d).cs (mk5 "CAS" "WR16" v w d).ca
      = some (.wr (bits d.bank 0 4) (bits d.address 4 6) (d.address.testBit 10) (w == 1, w == 2, w == 3)) := by
  simp [mk5, s5_CAS, s5_WR16, eval, decode, decodeSmall, combine, bits, range4, range6]

theorem mk5_mwr (d : Dfi) (v : Bool) (w : Nat) :
    decode (mk5 "CAS" "MWR" v w d).cs (mk5 "CAS" "MWR" v w d).ca
      = some (.mwr (bits d.bank 0 4) (bits d.address 4 6) (d.address.testBit 10) (w == 1, w == 2, w == 3)) := by
  simp [mk5, s5_CAS, s5_MWR, eval, decode, decodeSmall, combine, bits, range4, range6]

theorem mk5_pre (d : Dfi) (v : Bool) (w : Nat) :
    decode (mk5 "DES" "PRE" v w d).cs (mk5 "DES" "PRE" v w d).ca
      = some (.pre (bits d.bank 0 4) (d.address.testBit 10)) := by
  simp [mk5, s5_DES, s5_PRE, eval, decode, decodeSmall, single, bits, range4]

theorem mk5_ref (d : Dfi) (v : Bool) (w : Nat) :
    decode (mk5 "DES" "REF" v w d).cs (mk5 "DES" "REF" v w d).ca
      = some (.ref (bits d.bank 0 3) (d.address.testBit 10)) := by
  simp [mk5, s5_DES, s5_REF, eval, decode, decodeSmall, single, bits, range3]

theorem mk5_mpc (d : Dfi) (v : Bool) (w : Nat) :
    decode (mk5 "DES" "MPC" v w d).cs (mk5 "DES" "MPC" v w d).ca
      = some (.mpc (bits (mpcOperand d) 0 8)) := by
  simp [mk5, s5_DES, s5_MPC, eval, decode, decodeSmall, single, bits, range8, mpcOperand]

theorem mk5_mrr (d : Dfi) (v : Bool) (w : Nat) :
    decode (mk5 "CAS" "MRR" v w d).cs (mk5 "CAS" "MRR" v w d).ca
      = some (.mrr (bits d.address 0 7) (w == 1, w == 2, w == 3)) := by
  simp [mk5, s5_CAS, s5_MRR, eval, decode, decodeSmall, combine, bits, range7]

theorem mk5_nop (d : Dfi) (v : Bool) (w : Nat) :
    decode (mk5 "DES" "NOP" v w d).cs (mk5 "DES" "NOP" v w d).ca = some .nop := by
  simp [mk5, s5_DES, s5_NOP, eval, decode, decodeSmall, single]

theorem mk5_mrw (d : Dfi) (v : Bool) (w : Nat) :
    decode (mk5 "MRW-1" "MRW-2" v w d).cs (mk5 "MRW-1" "MRW-2" v w d).ca
      = some (.mrw (bits d.bank 0 7) (bits d.address 0 8)) := by
  simp [mk5, s5_MRW_1, s5_MRW_2, eval, decode, decodeSmall, combine, bits, range7, range8]

theorem mk5_des (d : Dfi) (v : Bool) (w : Nat) :
    decode (mk5 "DES" "DES" v w d).cs (mk5 "DES" "DES" v w d).ca = none := by
  simp [mk5, s5_DES, decode]

end lpddr5

/-- **LPDDR5 round trip** (single-phase adapter): same statement as for LPDDR4, including the MPC
operand substitution (DFI address 0 ↦ ZQC_LATCH), the column split C[5:0] = A[9:4], and the WCK2CK
sync bits of the CAS: they announce the access type unless the PHY reports sync done. -/
theorem lpddr5_roundtrip (masked done : Bool) (d : Dfi) :
    JedecLpddr5.decode (adapter5 masked done d).1.cs (adapter5 masked done d).1.ca = expected5 masked done d ∧
    (adapter5 masked done d).1.valid = (expected5 masked done d).isSome := by
  unfold adapter5 expected5 select5 syncOf
  by_cases hcs : d.csN = true
  · simp only [hcs, if_true]; exact ⟨mk5_des d false _, by simp [mk5]⟩
  · simp only [hcs, Bool.false_eq_true, if_false]
    have hlt : dfiCmd d < 8 := by
      unfold dfiCmd; cases d.weN <;> cases d.rasN <;> cases d.casN <;> decide
    generalize dfiCmd d = c at hlt
    have : c = 0 ∨ c = 1 ∨ c = 2 ∨ c = 3 ∨ c = 4 ∨ c = 5 ∨ c = 6 ∨ c = 7 := by omega
    rcases this with h | h | h | h | h | h | h | h <;> subst h <;> simp only []
    · exact ⟨mk5_des d false _, by simp [mk5]⟩
    · by_cases hb0 : d.bank = 0
      · simp only [hb0, if_true]; exact ⟨mk5_mpc d true _, by simp [mk5]⟩
      · by_cases hb1 : d.bank = 1
        · simp only [hb1, if_true]; exact ⟨by simpa using mk5_mrr d true _, by simp [mk5]⟩
        · by_cases hb2 : d.bank = 2
          · simp only [hb2, if_true]; exact ⟨by simpa using mk5_nop d true _, by simp [mk5]⟩
          · simp only [hb0, hb1, hb2, if_false]; exact ⟨mk5_des d false _, by simp [mk5]⟩
    · exact ⟨mk5_act d true _, by simp [mk5]⟩
    · exact ⟨mk5_pre d true _, by simp [mk5]⟩
    · exact ⟨mk5_rd d true _, by simp [mk5]⟩
    · cases masked
      · exact ⟨mk5_wr d true _, by simp [mk5]⟩
      · exact ⟨mk5_mwr d true _, by simp [mk5]⟩
    · exact ⟨mk5_ref d true _, by simp [mk5]⟩
    · exact ⟨mk5_mrw d true _, by simp [mk5]⟩

end C20
