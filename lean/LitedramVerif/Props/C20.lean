/-
C20 — LPDDR4/LPDDR5 PHYs translate each DFI command into the matching CA sequence.
-/
import LitedramVerif.Model.LpddrCmd
import LitedramVerif.Spec.JedecLpddr4
import LitedramVerif.Spec.JedecLpddr5
import LitedramVerif.Spec.LpddrExpect
import LitedramVerif.Proofs.LpddrSmall
import LitedramVerif.Model.CmdPipeline
namespace C20
open LpddrCmd LpddrExpect

theorem range3 : List.range 3 = [0,1,2] := by decide
theorem range6 : List.range 6 = [0,1,2,3,4,5] := by decide
theorem range7 : List.range 7 = [0,1,2,3,4,5,6] := by decide
theorem range8 : List.range 8 = [0,1,2,3,4,5,6,7] := by decide
theorem range17 : List.range 17 = [0,1,2,3,4,5,6,7,8,9,10,11,12,13,14,15,16] := by decide

section lpddr4
open JedecLpddr4

theorem mk4_act (d : Dfi) (v : Bool) :
    decode (mk4 "ACTIVATE-1" "ACTIVATE-2" v d).cs (mk4 "ACTIVATE-1" "ACTIVATE-2" v d).ca
      = some (.act (bits d.bank 0 3) (bits d.address 0 17)) := by
  simp [mk4, s4_ACTIVATE_1, s4_ACTIVATE_2, eval, decode, decodeSmall, combine, bits, range3, range17]

theorem mk4_rd (d : Dfi) (v : Bool) :
    decode (mk4 "READ-1" "CAS-2" v d).cs (mk4 "READ-1" "CAS-2" v d).ca
      = some (.rd (bits d.bank 0 3) (bits d.address 2 8) (d.address.testBit 10)) := by
  simp [mk4, s4_READ_1, s4_CAS_2, eval, decode, decodeSmall, combine, bits, range3, range8]

theorem mk4_wr (d : Dfi) (v : Bool) :
    decode (mk4 "WRITE-1" "CAS-2" v d).cs (mk4 "WRITE-1" "CAS-2" v d).ca
      = some (.wr (bits d.bank 0 3) (bits d.address 2 8) (d.address.testBit 10)) := by
  simp [mk4, s4_WRITE_1, s4_CAS_2, eval, decode, decodeSmall, combine, bits, range3, range8]

theorem mk4_mwr (d : Dfi) (v : Bool) :
    decode (mk4 "MASK WRITE-1" "CAS-2" v d).cs (mk4 "MASK WRITE-1" "CAS-2" v d).ca
      = some (.mwr (bits d.bank 0 3) (bits d.address 2 8) (d.address.testBit 10)) := by
  simp [mk4, s4_MASK_WRITE_1, s4_CAS_2, eval, decode, decodeSmall, combine, bits, range3, range8]

theorem mk4_pre (d : Dfi) (v : Bool) :
    decode (mk4 "DESELECT" "PRECHARGE" v d).cs (mk4 "DESELECT" "PRECHARGE" v d).ca
      = some (.pre (bits d.bank 0 3) (d.address.testBit 10)) := by
  simp [mk4, s4_DESELECT, s4_PRECHARGE, eval, decode, decodeSmall, single, bits, range3]

theorem mk4_ref (d : Dfi) (v : Bool) :
    decode (mk4 "DESELECT" "REFRESH" v d).cs (mk4 "DESELECT" "REFRESH" v d).ca
      = some (.ref (bits d.bank 0 3) (d.address.testBit 10)) := by
  simp [mk4, s4_DESELECT, s4_REFRESH, eval, decode, decodeSmall, single, bits, range3]

theorem mk4_mpc (d : Dfi) (v : Bool) :
    decode (mk4 "DESELECT" "MPC" v d).cs (mk4 "DESELECT" "MPC" v d).ca
      = some (.mpc (bits d.address 0 7)) := by
  simp [mk4, s4_DESELECT, s4_MPC, eval, decode, decodeSmall, single, bits, range7]

theorem mk4_mrr (d : Dfi) (v : Bool) :
    decode (mk4 "MRR-1" "CAS-2" v d).cs (mk4 "MRR-1" "CAS-2" v d).ca
      = some (.mrr (bits d.address 0 6)) := by
  simp [mk4, s4_MRR_1, s4_CAS_2, eval, decode, decodeSmall, combine, bits, range6]

theorem mk4_mrw (d : Dfi) (v : Bool) :
    decode (mk4 "MRW-1" "MRW-2" v d).cs (mk4 "MRW-1" "MRW-2" v d).ca
      = some (.mrw (bits d.bank 0 6) (bits d.address 0 8)) := by
  simp [mk4, s4_MRW_1, s4_MRW_2, eval, decode, decodeSmall, combine, bits, range6, range8]

theorem mk4_des (d : Dfi) (v : Bool) :
    decode (mk4 "DESELECT" "DESELECT" v d).cs (mk4 "DESELECT" "DESELECT" v d).ca = none := by
  simp [mk4, s4_DESELECT, decode]

end lpddr4

/-- **LPDDR4 round trip**: for every DFI phase value (any address, bank, command bits, masked or not)
the CS/CA sequence the adapter emits decodes, by the JEDEC truth table, to exactly the requested
operation with the same bank, row/column, AP/AB flag and mode-register operands (and to nothing —
all CS low — when the phase carries no command); the adapter flags `valid` exactly when there is an
operation. -/
theorem lpddr4_roundtrip (masked : Bool) (d : Dfi) :
    JedecLpddr4.decode (adapter4 masked d).cs (adapter4 masked d).ca = expected4 masked d ∧
    (adapter4 masked d).valid = (expected4 masked d).isSome := by
  unfold adapter4 expected4 select4
  by_cases hcs : d.csN = true
  · simp only [hcs, if_true]; exact ⟨mk4_des d false, by simp [mk4]⟩
  · simp only [hcs, Bool.false_eq_true, if_false]
    have hlt : dfiCmd d < 8 := by
      unfold dfiCmd; cases d.weN <;> cases d.rasN <;> cases d.casN <;> decide
    generalize dfiCmd d = c at hlt
    have : c = 0 ∨ c = 1 ∨ c = 2 ∨ c = 3 ∨ c = 4 ∨ c = 5 ∨ c = 6 ∨ c = 7 := by omega
    rcases this with h | h | h | h | h | h | h | h <;> subst h <;> simp only []
    · exact ⟨mk4_des d false, by simp [mk4]⟩
    · by_cases hb0 : d.bank = 0
      · simp only [hb0, if_true]; exact ⟨mk4_mpc d true, by simp [mk4]⟩
      · by_cases hb1 : d.bank = 1
        · simp only [hb1, if_true]; exact ⟨by simpa using mk4_mrr d true, by simp [mk4]⟩
        · simp only [hb0, hb1, if_false]; exact ⟨mk4_des d false, by simp [mk4]⟩
    · exact ⟨mk4_act d true, by simp [mk4]⟩
    · exact ⟨mk4_pre d true, by simp [mk4]⟩
    · exact ⟨mk4_rd d true, by simp [mk4]⟩
    · cases masked
      · exact ⟨mk4_wr d true, by simp [mk4]⟩
      · exact ⟨mk4_mwr d true, by simp [mk4]⟩
    · exact ⟨mk4_ref d true, by simp [mk4]⟩
    · exact ⟨mk4_mrw d true, by simp [mk4]⟩

/-! ## LPDDR5 -/

theorem range4 : List.range 4 = [0,1,2,3] := by decide
theorem range18 : List.range 18 = [0,1,2,3,4,5,6,7,8,9,10,11,12,13,14,15,16,17] := by decide

section lpddr5
open JedecLpddr5

theorem mk5_act (d : Dfi) (v : Bool) (w : Nat) :
    decode (mk5 "ACT-1" "ACT-2" v w d).cs (mk5 "ACT-1" "ACT-2" v w d).ca
      = some (.act (bits d.bank 0 4) (bits d.address 0 18)) := by
  simp [mk5, s5_ACT_1, s5_ACT_2, eval, decode, decodeSmall, combine, bits, range4, range18]

theorem mk5_rd (d : Dfi) (v : Bool) (w : Nat) :
    decode (mk5 "CAS" "RD16" v w d).cs (mk5 "CAS" "RD16" v w d).ca
      = some (.rd (bits d.bank 0 4) (bits d.address 4 6) (d.address.testBit 10) (w == 1, w == 2, w == 3)) := by
  simp [mk5, s5_CAS, s5_RD16, eval, decode, decodeSmall, combine, bits, range4, range6]

theorem mk5_wr (d : Dfi) (v : Bool) (w : Nat) :
    decode (mk5 "CAS" "WR16" v w d).cs (mk5 "CAS" "WR16" v w d).ca
      = some (.wr (bits d.bank 0 4) (bits d.address 4 6) (d.address.testBit 10) (w == 1, w == 2, w == 3)) := by
  simp [mk5, s5_CAS, s5_WR16, eval, decode, decodeSmall, combine, bits, range4, range6]

theorem mk5_mwr (d : Dfi) (v : Bool) (w : Nat) :
    decode (mk5 "CAS" "MWR" v w d).cs (mk5 "CAS" "MWR" v w d).ca
      = some (.mwr (bits d.bank 0 4) (bits d.address 4 6) (d.address.testBit 10) (w == 1, w == 2, w == 3)) := by
  simp [mk5, s5_CAS, s5_MWR, eval, decode, decodeSmall, combine, bits, range4, range6]

theorem mk5_pre (d : Dfi) (v : Bool) (w : Nat) :
    decode (mk5 "DES" "PRE" v w d).cs (mk5 "DES" "PRE" v w d).ca
      = some (.pre (bits d.bank 0 4) (d.address.testBit 10)) := by
  simp [mk5, s5_DES, s5_PRE, eval, decode, decodeSmall, single, bits, range4]

theorem mk5_ref (d : Dfi) (v : Bool) (w : Nat) :
    decode (mk5 "DES" "REF" v w d).cs (mk5 "DES" "REF" v w d).ca
      = some (.ref (bits d.bank 0 3) (d.address.testBit 10)) := by
  simp [mk5, s5_DES, s5_REF, eval, decode, decodeSmall, single, bits, range3]

theorem mk5_mpc (d : Dfi) (v : Bool) (w : Nat) :
    decode (mk5 "DES" "MPC" v w d).cs (mk5 "DES" "MPC" v w d).ca
      = some (.mpc (bits (mpcOperand d) 0 8)) := by
  simp [mk5, s5_DES, s5_MPC, eval, decode, decodeSmall, single, bits, range8, mpcOperand]

theorem mk5_mrr (d : Dfi) (v : Bool) (w : Nat) :
    decode (mk5 "CAS" "MRR" v w d).cs (mk5 "CAS" "MRR" v w d).ca
      = some (.mrr (bits d.address 0 7) (w == 1, w == 2, w == 3)) := by
  simp [mk5, s5_CAS, s5_MRR, eval, decode, decodeSmall, combine, bits, range7]

theorem mk5_nop (d : Dfi) (v : Bool) (w : Nat) :
    decode (mk5 "DES" "NOP" v w d).cs (mk5 "DES" "NOP" v w d).ca = some .nop := by
  simp [mk5, s5_DES, s5_NOP, eval, decode, decodeSmall, single]

theorem mk5_mrw (d : Dfi) (v : Bool) (w : Nat) :
    decode (mk5 "MRW-1" "MRW-2" v w d).cs (mk5 "MRW-1" "MRW-2" v w d).ca
      = some (.mrw (bits d.bank 0 7) (bits d.address 0 8)) := by
  simp [mk5, s5_MRW_1, s5_MRW_2, eval, decode, decodeSmall, combine, bits, range7, range8]

theorem mk5_des (d : Dfi) (v : Bool) (w : Nat) :
    decode (mk5 "DES" "DES" v w d).cs (mk5 "DES" "DES" v w d).ca = none := by
  simp [mk5, s5_DES, decode]

end lpddr5

/-- **LPDDR5 round trip** (single-phase adapter): same statement as for LPDDR4, including the MPC
operand substitution (DFI address 0 ↦ ZQC_LATCH), the column split C[5:0] = A[9:4], and the WCK2CK
sync bits of the CAS: they announce the access type unless the PHY reports sync done. -/
theorem lpddr5_roundtrip (masked done : Bool) (d : Dfi) :
    JedecLpddr5.decode (adapter5 masked done d).1.cs (adapter5 masked done d).1.ca = expected5 masked done d ∧
    (adapter5 masked done d).1.valid = (expected5 masked done d).isSome := by
  unfold adapter5 expected5 select5 syncOf
  by_cases hcs : d.csN = true
  · simp only [hcs, if_true]; exact ⟨mk5_des d false _, by simp [mk5]⟩
  · simp only [hcs, Bool.false_eq_true, if_false]
    have hlt : dfiCmd d < 8 := by
      unfold dfiCmd; cases d.weN <;> cases d.rasN <;> cases d.casN <;> decide
    generalize dfiCmd d = c at hlt
    have : c = 0 ∨ c = 1 ∨ c = 2 ∨ c = 3 ∨ c = 4 ∨ c = 5 ∨ c = 6 ∨ c = 7 := by omega
    rcases this with h | h | h | h | h | h | h | h <;> subst h <;> simp only []
    · exact ⟨mk5_des d false _, by simp [mk5]⟩
    · by_cases hb0 : d.bank = 0
      · simp only [hb0, if_true]; exact ⟨mk5_mpc d true _, by simp [mk5]⟩
      · by_cases hb1 : d.bank = 1
        · simp only [hb1, if_true]; exact ⟨by simpa using mk5_mrr d true _, by simp [mk5]⟩
        · by_cases hb2 : d.bank = 2
          · simp only [hb2, if_true]; exact ⟨by simpa using mk5_nop d true _, by simp [mk5]⟩
          · simp only [hb0, hb1, hb2, if_false]; exact ⟨mk5_des d false _, by simp [mk5]⟩
    · exact ⟨mk5_act d true _, by simp [mk5]⟩
    · exact ⟨mk5_pre d true _, by simp [mk5]⟩
    · exact ⟨mk5_rd d true _, by simp [mk5]⟩
    · cases masked
      · exact ⟨mk5_wr d true _, by simp [mk5]⟩
      · exact ⟨mk5_mwr d true _, by simp [mk5]⟩
    · exact ⟨mk5_ref d true _, by simp [mk5]⟩
    · exact ⟨mk5_mrw d true _, by simp [mk5]⟩

/-! ## LPDDR4 command pipeline (bit-slips and overlap masks) -/
section pipeline
open CmdPipeline

/-- what adapter `p` contributes to the bit-slip input in a cycle: its CS slot `k`, masked -/
def maskedCs (c : Cfg) (s : State) (i : Ins) (p k : Nat) : Bool :=
  decide (k < slots) && (i p).cs k && allowed c s i p

/-- **Placement** (per adapter): after two consecutive controller cycles with adapter outputs `a`
then `b`, the bit-slipped CS word of the adapter on phase `p` carries, at serial slot `j`, slot
`j - p` of the command presented in the *last* cycle when `j ≥ p`, and the tail (slot
`csW - p + j`) of the command presented the cycle before when `j < p`: a command on phase `p`
starts at serial slot `p` of the next cycle and spills into the following one. -/
theorem cs_placement (c : Cfg) (s : State) (a b : Ins) (p j : Nat) (hp : p ≤ c.csW) :
    (step c (step c s a) b).csR p (c.csW - p + j) =
      if j < p then maskedCs c s a p (c.csW - p + j) else maskedCs c (step c s a) b p (j - p) := by
  by_cases hjp : j < p
  · have h1 : c.csW - p + j < c.csW := by omega
    have h2 : ¬ (c.csW - p + j + c.csW < c.csW) := by omega
    simp only [step, h1, if_true, h2, if_false, hjp, maskedCs, Nat.add_sub_cancel]
  · have h1 : ¬ (c.csW - p + j < c.csW) := by omega
    have e : c.csW - p + j - c.csW = j - p := by omega
    simp only [step, h1, if_false, hjp, maskedCs, e]

theorem any_congr_mem {α : Type} (l : List α) (f g : α → Bool) (h : ∀ x ∈ l, f x = g x) :
    l.any f = l.any g := by
  induction l with
  | nil => rfl
  | cons x xs ih =>
    simp only [List.any_cons]
    rw [h x (by simp), ih (fun y hy => h y (List.mem_cons_of_mem _ hy))]

/-- the serialised CS output is the OR over the adapters of their placed contributions: the command
issued on phase `p` of cycle `t` is what the pins show from serial slot `p` of cycle `t+1` on -/
theorem out_cs_formula (c : Cfg) (s : State) (a b : Ins) (j : Nat) (hn : c.n ≤ c.csW) :
    outCs c (step c (step c s a) b) j =
      (List.range c.n).any fun p =>
        if j < p then maskedCs c s a p (c.csW - p + j) else maskedCs c (step c s a) b p (j - p) := by
  unfold outCs
  apply any_congr_mem
  intro p hp
  have : p < c.n := List.mem_range.mp hp
  exact cs_placement c s a b p j (by omega)

/-- **Only overlaps are suppressed** (basic check): the adapter on phase `p` is masked exactly when
some adapter was `valid` on one of the `span - 1` preceding phases, counted across the cycle
boundary (phase `p - k` of this cycle, or phase `n + p - k` of the previous one). -/
theorem allowed_basic (c : Cfg) (s : State) (i : Ins) (p : Nat) (hb : c.extended = false)
    (hs : nprev c ≤ c.n) (hp : p < c.n) :
    allowed c s i p = !((List.range (nprev c)).any fun q =>
      let k := nprev c - q
      if k ≤ p then (i (p - k)).valid else s.validsReg (c.n + p - k)) := by
  unfold allowed
  congr 1
  apply any_congr_mem
  intro q hq
  have hq' : q < nprev c := List.mem_range.mp hq
  simp only [hist, hb, Bool.false_eq_true, if_false, rValid]
  by_cases hk : nprev c - q ≤ p
  · have h1 : ¬ (c.n + p - nprev c + q < c.n) := by omega
    have e : c.n + p - nprev c + q - c.n = p - (nprev c - q) := by omega
    simp only [h1, if_false, hk, if_true, e]
  · have h1 : c.n + p - nprev c + q < c.n := by omega
    have e : c.n + p - nprev c + q = c.n + p - (nprev c - q) := by omega
    rw [if_pos h1, if_neg hk, e]

/-- the LPDDR4 PHY's configuration -/
def cfg4 (ext : Bool) : Cfg := { n := 8, csW := 8, caW := 8, caN := 6, span := 4, extended := ext }

/-- an adapter presenting an ACTIVATE-like command (CS on slots 0 and 2) -/
def actIn : AdIn := { valid := true, cs := fun k => k == 0 || k == 2, ca := fun _ _ => false }
def idleIn : AdIn := { valid := false, cs := fun _ => false, ca := fun _ _ => false }
def cyc (ps : List Nat) : Ins := fun p => if ps.contains p then actIn else idleIn

/-- **Known finding, on the model** (`c20-chain-suppression`): with the extended check, requests on
cycle 1 phase 7, cycle 2 phases 1, 4, 6 and cycle 3 phase 0: the phase-4 command is sent (phase 1 was
dropped), phase 6 is dropped, and the cycle-3 phase-0 command — which overlaps nothing in flight — is
dropped as well: no CS appears on any slot of the following cycle. -/
theorem chain_counterexample :
    let s2 := step (cfg4 true) (step (cfg4 true) init (cyc [7])) (cyc [1, 4, 6])
    let s3 := step (cfg4 true) s2 (cyc [0])
    (List.range 8).map (outCs (cfg4 true) s2) = [false, true, false, false, true, false, true, false] ∧
    (List.range 8).map (outCs (cfg4 true) s3) = [false, false, false, false, false, false, false, false] := by
  decide

/-- …whereas two commands alone behave exactly as the property says, e.g. 4 phases apart both are
sent (CS pattern of both visible), 3 phases apart the second is dropped. -/
theorem pair_examples :
    (List.range 8).map (outCs (cfg4 false) (step (cfg4 false) init (cyc [0, 4])))
      = [true, false, true, false, true, false, true, false] ∧
    (List.range 8).map (outCs (cfg4 false) (step (cfg4 false) init (cyc [0, 3])))
      = [true, false, true, false, false, false, false, false] := by
  decide

end pipeline

end C20
