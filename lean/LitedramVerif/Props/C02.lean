/-
C02 — the DRAM command stream obeys the bank state machine.

Layering (DESIGN §6 C02).  The whole-controller statement is `dfi_stream_legal_full` below (the Lean
specification monitor `Dram.Mon.step` never rejects a trace of `Controller.step`).  What is *proved*
here is the bank-machine half against an explicit environment contract (accepted commands reach the
DRAM; the refresher's precharge-all arrives only while this machine is in REFRESH, and the refresh
request is withdrawn only after it) — the part of the controller that owns the open-row belief — plus
the structural facts about the steerer's data-enable strobes.  The monitor itself is evaluated on every
implementation trace by the check.
-/
import LitedramVerif.Model.Controller
import LitedramVerif.Spec.Dram
namespace C02
open BankMachine

/-- reference bank automaton for one bank: the open row, if any -/
abbrev DramBank := Option Nat

/-- what one bank machine gets accepted in a cycle -/
inductive Cmd | nop | act (row : Nat) | pre | cas (ap : Bool)
deriving Repr, DecidableEq

def cmdOf (s' : State) (o : Out) (ready : Bool) : Cmd :=
  if o.cmdValid && ready then
    if o.cas then .cas (s'.fsm == .autoprecharge)
    else if o.ras && o.we then .pre
    else if o.ras then .act o.a
    else .nop
  else .nop

/-- legality in the reference automaton: ACT only on a precharged bank; RD/WR only when the open row
is the row the request at the head of the queue addresses -/
def legal (c : Cfg) (s : State) (d : DramBank) : Cmd → Bool
  | .nop => true
  | .act _ => d.isNone
  | .pre => true
  | .cas _ => d == some (rowFull c s.buf.addr)

def dramStep (d : DramBank) : Cmd → DramBank
  | .nop => d
  | .act r => some r
  | .pre => none
  | .cas ap => if ap then none else d

/-- joint invariant between the machine's belief (`row`, `rowOpened`, FSM state) and the DRAM bank;
`cleared` is a ghost: the refresher's precharge-all has been seen since REFRESH was entered -/
def Inv (c : Cfg) (s : State) (d : DramBank) (cleared : Bool) : Prop :=
  match s.fsm with
  | .regular => (s.rowOpened = true → d = some s.row ∧ s.row < 2 ^ c.rowbits) ∧ (s.rowOpened = false → d = none)
  | .precharge => d = some s.row ∧ s.row < 2 ^ c.rowbits
  | .autoprecharge => d = none
  | .activate => d = none
  | .trp _ => d = none
  | .trcd _ => d = some s.row ∧ s.rowOpened = true ∧ s.row < 2 ^ c.rowbits
  | .refresh => cleared = true → d = none

/-- the request addresses fit the row field (what the crossbar guarantees, C06: `rcaOf_lt`) -/
def AddrOk (c : Cfg) (s : State) : Prop := rowFull c s.buf.addr < 2 ^ c.rowbits

/-- environment contract for one cycle -/
structure EnvOK (s : State) (i : In) (prea cleared : Bool) : Prop where
  prea_in_refresh : prea = true → s.fsm = .refresh
  withdraw_after_prea : s.fsm = .refresh → i.refresh = false → cleared = true ∨ prea = true

def cleared' (s s' : State) (prea cleared : Bool) : Bool :=
  s'.fsm == .refresh && s.fsm == .refresh && (cleared || prea)

/-- **Bank-machine legality** (one step; lifts to every reachable state by induction on the input
list): under the environment contract every command the machine gets accepted is legal for the DRAM
bank, and the joint invariant is re-established — including across refresh and auto-precharge. -/
theorem bm_step_legal (c : Cfg) (s : State) (d : DramBank) (cl : Bool) (i : In) (prea : Bool)
    (henv : EnvOK s i prea cl) (haddr : AddrOk c s) (hrow : c.abits ≥ c.rowbits) (h : Inv c s d cl) :
    let r := step c s i
    let cmd := cmdOf r.1 r.2 i.ready
    legal c s d cmd = true ∧
    Inv c r.1 (if prea then none else dramStep d cmd) (cleared' s r.1 prea cl) := by
  obtain ⟨h1, h2⟩ := henv
  have hmod : rowFull c s.buf.addr % 2 ^ c.rowbits = rowFull c s.buf.addr := Nat.mod_eq_of_lt haddr
  have hle : 2 ^ c.rowbits ≤ 2 ^ c.abits := Nat.pow_le_pow_right (by decide) hrow
  have hmod2 : rowFull c s.buf.addr % 2 ^ c.abits = rowFull c s.buf.addr := Nat.mod_eq_of_lt (Nat.lt_of_lt_of_le haddr hle)
  unfold AddrOk at haddr
  simp only [step, cmdOf, Inv, cleared', rowOf] at *
  cases hf : s.fsm <;> cases prea <;> simp_all [legal, dramStep, enter] <;> grind

/-! ### lifting to every reachable state -/

/-- all queued request addresses fit the row field -/
def MemOk (c : Cfg) (s : State) : Prop :=
  (∀ e ∈ s.mem, rowFull c e.addr < 2 ^ c.rowbits) ∧ rowFull c s.buf.addr < 2 ^ c.rowbits

theorem memok_init (c : Cfg) : MemOk c (State.init c) := by
  refine ⟨?_, ?_⟩
  · intro e he
    simp only [State.init, Array.mem_replicate] at he
    rw [he.2]; simp [rowFull]; exact Nat.two_pow_pos _
  · simp [State.init, rowFull]; exact Nat.two_pow_pos _

theorem memok_step (c : Cfg) (s : State) (i : In) (h : MemOk c s) (hi : rowFull c i.addr < 2 ^ c.rowbits) :
    MemOk c (step c s i).1 := by
  obtain ⟨hm, hb⟩ := h
  have hla : rowFull c (s.mem[s.consume]!).addr < 2 ^ c.rowbits := by
    by_cases hlt : s.consume < s.mem.size
    · rw [getElem!_pos s.mem s.consume hlt]; exact hm _ (Array.getElem_mem hlt)
    · rw [getElem!_neg s.mem s.consume hlt]
      have hd : (default : Entry).addr = 0 := rfl
      rw [hd]; simp [rowFull]; exact Nat.two_pow_pos _
  have hset : ∀ (k : Nat) (e : Entry), e ∈ s.mem.set! k ⟨i.we, i.addr⟩ → rowFull c e.addr < 2 ^ c.rowbits := by
    intro k e he
    rcases Array.mem_or_eq_of_mem_setIfInBounds he with h1 | h1
    · exact hm e h1
    · rw [h1]; exact hi
  refine ⟨?_, ?_⟩
  · intro e he
    simp only [step] at he
    repeat' split at he
    all_goals first | exact hm e he | exact hset _ e he
  · simp only [step]
    repeat' split
    all_goals first | exact hi | exact hla | exact hb

/-- a trace of one bank machine: per cycle its inputs and whether the refresher's precharge-all lands -/
structure Ev where
  i : In
  prea : Bool

/-- run the machine, the reference bank and the ghost together; `none` = an illegal command was accepted -/
def runLegal (c : Cfg) : State → DramBank → Bool → List Ev → Bool
  | _, _, _, [] => true
  | s, d, cl, e :: es =>
    let r := step c s e.i
    let cmd := cmdOf r.1 r.2 e.i.ready
    legal c s d cmd && runLegal c r.1 (if e.prea then none else dramStep d cmd) (cleared' s r.1 e.prea cl) es

/-- the environment contract along a trace -/
def EnvOKs (c : Cfg) : State → Bool → List Ev → Prop
  | _, _, [] => True
  | s, cl, e :: es =>
    EnvOK s e.i e.prea cl ∧ rowFull c e.i.addr < 2 ^ c.rowbits ∧
    EnvOKs c (step c s e.i).1 (cleared' s (step c s e.i).1 e.prea cl) es

theorem bm_run_legal_from (c : Cfg) (hrow : c.abits ≥ c.rowbits) (es : List Ev) :
    ∀ (s : State) (d : DramBank) (cl : Bool), Inv c s d cl → MemOk c s → EnvOKs c s cl es → runLegal c s d cl es = true := by
  induction es with
  | nil => intros; rfl
  | cons e es ih =>
    intro s d cl hinv hmem henv
    obtain ⟨h1, h2, h3⟩ := henv
    have hstep := bm_step_legal c s d cl e.i e.prea h1 hmem.2 hrow hinv
    simp only [runLegal, Bool.and_eq_true]
    exact ⟨hstep.1, ih _ _ _ hstep.2 (memok_step c s e.i hmem h2) h3⟩

/-- **Every reachable state**: from reset (bank precharged), for every input history that meets the
environment contract, a bank machine never gets an illegal command accepted — ACT only on a precharged
bank, RD/WR only on the open row the request addresses — for every configuration. -/
theorem bm_run_legal (c : Cfg) (hrow : c.abits ≥ c.rowbits) (es : List Ev)
    (henv : EnvOKs c (State.init c) false es) : runLegal c (State.init c) none false es = true :=
  bm_run_legal_from c hrow es _ _ _ (by simp [Inv, State.init]) (memok_init c) henv

/-- the specification monitor's configuration that corresponds to a controller configuration
(distances in DRAM clocks: `cycles·n − (n−1)`) -/
def monCfg (c : Controller.Cfg) : Dram.Cfg :=
  let n := c.nphases
  let clk := fun (cy : Nat) => if cy = 0 then 0 else cy * n - (n - 1)
  { nphases := n, nranks := 2 ^ c.rankbits, nbanks := 2 ^ c.bankbits, rdphase := c.rdphase, wrphase := c.wrphase,
    colbits := c.bm.colbits, align := c.bm.align,
    req := { tRCD := clk c.bm.tRCD, tRP := clk c.bm.tRP, tRAS := clk (c.bm.tRAS.getD 0), tRC := clk (c.bm.tRC.getD 0),
             tRRD := clk (c.tRRD.getD 0), tFAW := clk (c.tFAW.getD 0), tCCD := clk c.tCCD, tWTP := clk c.bm.twtp,
             tWTR := clk c.twtr, tRFC := clk c.rf.tRFC, tZQCS := clk (c.rf.tZQCS.getD 0) } }

def toPhase (p : Controller.Phase) : Dram.Phase :=
  { csN := p.csN, bank := p.bank, address := p.address, casN := p.casN, rasN := p.rasN, weN := p.weN,
    rddataEn := p.rddataEn, wrdataEn := p.wrdataEn }

/-- requests accepted by the bank machines in a cycle (valid & ready), as the monitor wants them -/
def acceptedOf (ins : Array Controller.BankIn) (outs : Array Controller.BankOut) : List (Nat × Dram.Request) :=
  (List.range ins.size).filterMap fun i =>
    if (ins[i]!).valid && (outs[i]!).ready then some (i, { we := (ins[i]!).we, addr := (ins[i]!).addr }) else none

/-- run controller model and specification monitor side by side -/
def runMon (c : Controller.Cfg) (inputs : List (Array Controller.BankIn)) : Except String Dram.Mon :=
  (inputs.foldl (fun (acc : Controller.State × Except String Dram.Mon) ins =>
      let r := Controller.step c acc.1 ins
      (r.1, acc.2.bind fun mon => Dram.Mon.step (monCfg c) mon (acceptedOf ins r.2) (acc.1.dfi.map toPhase)))
    (Controller.init c, .ok (Dram.Mon.init (monCfg c)))).2

/-- the full statement for the composed controller (C02 with all distances 0, C03 with the timing table):
**not proved** — the specification monitor accepts every trace of the controller model.  It is the
property the check evaluates on every implementation trace (same `Dram.Mon.step`), and the model is
co-simulated against the implementation; the proved parts are `bm_run_legal` above and C03/C04's lemmas. -/
def dfi_stream_legal_full : Prop :=
  ∀ (c : Controller.Cfg) (inputs : List (Array Controller.BankIn)), ∃ m, runMon c inputs = .ok m

/-! ### non-vacuity: a concrete trace meeting the contract reaches ACT, CAS, PRE and refresh -/
def cfgEx : Cfg := { depth := 4, tRAS := some 3, tRC := some 5, twtp := 4, tRCD := 2, tRP := 2, colbits := 6, rowbits := 11,
                     align := 2, abits := 11, ap := true }
def evs : List Ev :=
  [⟨⟨true, false, 0x35, false, true⟩, false⟩, ⟨⟨true, true, 0x75, false, true⟩, false⟩] ++
  List.replicate 14 ⟨⟨false, false, 0, false, true⟩, false⟩ ++
  List.replicate 3 ⟨⟨false, false, 0, true, true⟩, false⟩ ++ [⟨⟨false, false, 0, true, true⟩, true⟩, ⟨⟨false, false, 0, false, true⟩, false⟩]
example : runLegal cfgEx (State.init cfgEx) none false evs = true := by decide +kernel

end C02
