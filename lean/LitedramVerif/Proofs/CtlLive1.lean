/-
Helper lemmas (no property statements), single-phase configurations (nphases = 1: the request chooser also issues the
precharges and activates, an activate that is not allowed is *skipped* by the arbiter instead of blocking it):
 * `omega1`   bound on the cycles until the command offered by bank machine b is accepted:
              muxWait + tCCD wait + rasWait + (distance of the grant if activates are allowed, else n − 1)
              + (number of bank machines that may still activate) · (rasInc + n)      (`omega1_step`, `omega1_zero`, `omega1_le`)
 * `omegaG`   the bound for either kind of configuration
-/
import LitedramVerif.Proofs.CtlLive0
namespace CtlLive
open Controller Hw CtlInv BmLive

/-! ### single-phase configurations: the request chooser also issues precharges and activates -/
theorem req_pending_isCmd (c : BankMachine.Cfg) (s : BankMachine.State) (v w : Bool) (a : Nat) :
    (BankMachine.req c s v w a true).valid = true → (BankMachine.req c s v w a true).isCmd = true := by
  simp only [BankMachine.req, BankMachine.step]
  cases s.fsm <;> simp

def vReqOf (c : Cfg) (s : State) (ins : Array BankIn) : Array Bool :=
  (reqsOf c s ins).map fun r => chooserValid r (s.fsm == .read) (s.fsm == .write) (c.nphases == 1) (c.nphases == 1 && (s.trrd.ready && s.tfaw.ready))
def reqReadyOf (c : Cfg) (s : State) (ins : Array BankIn) : Bool :=
  (s.fsm == .read || s.fsm == .write) &&
    (if c.nphases == 1 then s.tccd.ready && (!(combOf c s ins).cReq.activate || (s.trrd.ready && s.tfaw.ready)) else s.tccd.ready)

theorem step_grantReq (c : Cfg) (s : State) (ins : Array BankIn) :
    (step c s ins).1.grantReq = rrStep c.nbm s.grantReq (fun i => (vReqOf c s ins)[i]!) (reqReadyOf c s ins || !(combOf c s ins).cReq.valid) := rfl

theorem reqAccept_eq (c : Cfg) (s : State) (ins : Array BankIn) :
    (combOf c s ins).reqAccept = ((combOf c s ins).cReq.valid && reqReadyOf c s ins) := rfl

theorem cmdAccept_one (c : Cfg) (s : State) (ins : Array BankIn) (hone : (c.nphases == 1) = true) :
    (combOf c s ins).cmdAccept = false := by
  simp [combOf, hone]

theorem vReq_pending1 (c : Cfg) (s : State) (ins : Array BankIn) (hp : Pending c s) (hone : (c.nphases == 1) = true) (j : Nat) (hj : j < c.nbm) :
    (vReqOf c s ins)[j]! = ((reqJ c s ins j).valid &&
      ((reqJ c s ins j).we || rasAllowedOf s || !(s.fsm == .read || s.fsm == .write))) := by
  have hlt : j < (reqsOf c s ins).size := by rw [reqsOf_size]; exact hj
  obtain ⟨h1, h2, h3, h4, _⟩ := reqJ_pending c s ins hp j
  have h5 : (reqJ c s ins j).valid = true → (reqJ c s ins j).isCmd = true := by
    unfold Pending at hp
    simp only [reqJ, hp]; exact req_pending_isCmd _ _ _ _ _
  unfold vReqOf
  rw [getElem!_pos _ j (by simpa using hlt)]
  simp only [Array.getElem_map]
  have : (reqsOf c s ins)[j] = reqJ c s ins j := by
    rw [← reqsOf_get c s ins j hj, getElem!_pos _ j hlt]
  rw [this]
  simp only [chooserValid, h1, h2, h3, h4, hone, rasAllowedOf]
  cases hv : (reqJ c s ins j).valid
  · simp
  · simp only [h5 hv]
    cases (reqJ c s ins j).we <;> cases s.trrd.ready <;> cases s.tfaw.ready <;> cases s.fsm <;> simp

theorem cReq_pending1 (c : Cfg) (s : State) (ins : Array BankIn) (hp : Pending c s) (hone : (c.nphases == 1) = true) (hg : s.grantReq < c.nbm) :
    (combOf c s ins).cReq.valid = (vReqOf c s ins)[s.grantReq]! ∧
    (combOf c s ins).cReq.activate = ((vReqOf c s ins)[s.grantReq]! && !(reqJ c s ins s.grantReq).we) := by
  obtain ⟨h1, h2, h3, h4, _⟩ := reqJ_pending c s ins hp s.grantReq
  have hv := vReq_pending1 c s ins hp hone _ hg
  have e : (combOf c s ins).cReq = choose (reqsOf c s ins) (vReqOf c s ins) s.grantReq := rfl
  rw [e]
  simp only [choose, Chosen.activate, reqsOf_get c s ins _ hg, h3, h4]
  refine ⟨trivial, ?_⟩
  rw [hv]
  cases (reqJ c s ins s.grantReq).valid <;> cases (reqJ c s ins s.grantReq).we <;> cases rasAllowedOf s <;> cases s.fsm <;> simp

theorem strobes_pending1 (c : Cfg) (s : State) (ins : Array BankIn) (hp : Pending c s) (hone : (c.nphases == 1) = true) (hg : s.grantReq < c.nbm) :
    CtlTiming.wrStrobeOf c s ins = false ∧ CtlTiming.casStrobeOf c s ins = false ∧
    CtlTiming.actStrobeOf c s ins = ((combOf c s ins).reqAccept && (combOf c s ins).cReq.activate) := by
  obtain ⟨h1, h2, _⟩ := reqJ_pending c s ins hp s.grantReq
  have e : (combOf c s ins).cReq = choose (reqsOf c s ins) (vReqOf c s ins) s.grantReq := rfl
  have hr : (combOf c s ins).cReq.isRead = false := by rw [e]; simp [choose, reqsOf_get c s ins _ hg, h1]
  have hw : (combOf c s ins).cReq.isWrite = false := by rw [e]; simp [choose, reqsOf_get c s ins _ hg, h2]
  simp [CtlTiming.wrStrobeOf, CtlTiming.casStrobeOf, CtlTiming.actStrobeOf, hone, hr, hw]

theorem bmReady_pending1 (c : Cfg) (s : State) (ins : Array BankIn) (hone : (c.nphases == 1) = true) (b : Nat) :
    bmReadyOf c s ins b = ((combOf c s ins).reqAccept && s.grantReq == b) := by
  rw [bmReady_eq, cmdAccept_one c s ins hone]; simp

def sumUpTo (f : Nat → Nat) : Nat → Nat
  | 0 => 0
  | n + 1 => sumUpTo f n + f n

theorem sumUpTo_le (f g : Nat → Nat) (n : Nat) (h : ∀ j, j < n → f j ≤ g j) : sumUpTo f n ≤ sumUpTo g n := by
  induction n with
  | zero => simp [sumUpTo]
  | succ n ih =>
    have := ih (fun j hj => h j (by omega)); have := h n (by omega)
    simp only [sumUpTo]; omega

theorem sumUpTo_lt (f g : Nat → Nat) (n : Nat) (h : ∀ j, j < n → f j ≤ g j) (j0 : Nat) (hj0 : j0 < n) (hlt : f j0 + 1 ≤ g j0) :
    sumUpTo f n + 1 ≤ sumUpTo g n := by
  induction n with
  | zero => omega
  | succ n ih =>
    simp only [sumUpTo]
    by_cases hn : j0 = n
    · subst hn
      have := sumUpTo_le f g j0 (fun j hj => h j (by omega))
      omega
    · have := ih (fun j hj => h j (by omega)) (by omega)
      have := h n (by omega)
      omega

theorem sumUpTo_bound (f : Nat → Nat) (n B : Nat) (h : ∀ j, j < n → f j ≤ B) : sumUpTo f n ≤ n * B := by
  induction n with
  | zero => simp [sumUpTo]
  | succ n ih =>
    have := ih (fun j hj => h j (by omega)); have := h n (by omega)
    simp only [sumUpTo]; rw [Nat.add_mul, Nat.one_mul]; omega

def canActF (f : BankMachine.St) : Nat :=
  match f with
  | .precharge | .autoprecharge | .trp _ | .activate => 1
  | _ => 0

def canAct (s : BankMachine.State) : Nat := canActF s.fsm

def kAct (c : Cfg) (s : State) : Nat := sumUpTo (fun j => canAct s.bms[j]!) c.nbm

theorem canActF_nxt (c : BankMachine.Cfg) (f : BankMachine.St) (rdy bv ro rh ap tw ta tc : Bool) :
    canActF (BmTiming.nxt c f rdy true bv ro rh ap tw ta tc) ≤ canActF f ∧
    (f = .activate → tc = true → rdy = true → canActF (BmTiming.nxt c f rdy true bv ro rh ap tw ta tc) + 1 ≤ canActF f) := by
  cases f <;> cases rdy <;> cases tw <;> cases ta <;> cases tc <;> simp [BmTiming.nxt, BankMachine.enter, canActF] <;> grind

theorem canAct_step (c : BankMachine.Cfg) (s : BankMachine.State) (i : BankMachine.In) (hr : i.refresh = true) :
    canAct (BankMachine.step c s i).1 ≤ canAct s ∧
    (s.fsm = .activate → s.trc.ready = true → i.ready = true → canAct (BankMachine.step c s i).1 + 1 ≤ canAct s) := by
  have e := (BmLive.outs_refresh c s i hr).2.2.2.2
  simp only [canAct, e]
  exact canActF_nxt c _ _ _ _ _ _ _ _ _

theorem canAct_le_one (s : BankMachine.State) : canAct s ≤ 1 := by
  simp only [canAct, canActF]; split <;> omega

/-- `rasAllowed` stays up while no activate is issued -/
theorem ras_stays (c : Cfg) (s : State) (ins : Array BankIn) (hk : MOk c s) (hs : CtlTiming.actStrobeOf c s ins = false)
    (h : rasAllowedOf s = true) : rasAllowedOf (step c s ins).1 = true := by
  simp only [rasAllowedOf, Bool.and_eq_true] at h ⊢
  rw [CtlTiming.step_trrd, CtlTiming.step_tfaw, hs]
  constructor
  · cases c.tRRD <;> simp [TX.step, h.1]
  · cases hf : c.tFAW with
    | none => simp [TF.step, h.2]
    | some f => simp only [TF.step, h.2]; split <;> simp

theorem kAct_step (c : Cfg) (s : State) (ins : Array BankIn) (hp : Pending c s) :
    kAct c (step c s ins).1 ≤ kAct c s ∧
    (∀ g, g < c.nbm → (s.bms[g]!).fsm = .activate → (s.bms[g]!).trc.ready = true → bmReadyOf c s ins g = true →
      kAct c (step c s ins).1 + 1 ≤ kAct c s) := by
  have hle : ∀ j, j < c.nbm → canAct (step c s ins).1.bms[j]! ≤ canAct s.bms[j]! := by
    intro j hj; rw [step_bms c s ins j hj]; exact (canAct_step c.bm _ (bmIn c s ins j) hp).1
  refine ⟨sumUpTo_le _ _ _ hle, ?_⟩
  intro g hg hf ht hr
  refine sumUpTo_lt _ _ _ hle g hg ?_
  rw [step_bms c s ins g hg]
  exact (canAct_step c.bm _ (bmIn c s ins g) hp).2 hf ht hr

/-- single phase: an upper bound on the cycles until the request chooser accepts the command bank machine `b` offers -/
def omega1 (c : Cfg) (s : State) (b : Nat) : Nat :=
  muxWait c s + rem (some c.tCCD) s.tccd + rasWait c s +
    (if rasAllowedOf s then C05.dist c.nbm s.grantReq b else c.nbm - 1) + kAct c s * (rasInc c + c.nbm)

theorem dist_step1 (c : Cfg) (s : State) (ins : Array BankIn) (hk : MOk c s) (b : Nat) (hb : b < c.nbm)
    (hv : (vReqOf c s ins)[b]! = true) :
    let ce := reqReadyOf c s ins || !(combOf c s ins).cReq.valid
    (ce = false → (step c s ins).1.grantReq = s.grantReq) ∧
    (ce = true → s.grantReq ≠ b → C05.dist c.nbm (step c s ins).1.grantReq b + 1 ≤ C05.dist c.nbm s.grantReq b) := by
  intro ce
  rw [step_grantReq]
  refine ⟨?_, ?_⟩
  · intro h; simp only [rrStep]; rw [show (reqReadyOf c s ins || !(combOf c s ins).cReq.valid) = false from h]; simp
  · intro h hne
    have hn : 1 < c.nbm := by have := hk.gr; omega
    simp only [rrStep]
    rw [show (reqReadyOf c s ins || !(combOf c s ins).cReq.valid) = true from h]
    have : (decide (c.nbm > 1) && true) = true := by simp; omega
    rw [if_pos this]
    have := C05.rr_closer c.nbm s.grantReq b (fun i => (vReqOf c s ins)[i]!) hn hk.gr hb hne hv
    omega

theorem act_valid_ras (c : Cfg) (s : State) (ins : Array BankIn) (hp : Pending c s) (hone : (c.nphases == 1) = true) (hk : MOk c s)
    (hact : s.fsm = .read ∨ s.fsm = .write) (hv : (combOf c s ins).cReq.valid = true) :
    (!(combOf c s ins).cReq.activate || rasAllowedOf s) = true := by
  obtain ⟨h1, h2⟩ := cReq_pending1 c s ins hp hone hk.gr
  rw [h1] at hv
  rw [h2, hv]
  rw [vReq_pending1 c s ins hp hone _ hk.gr] at hv
  have ha : (s.fsm == .read || s.fsm == .write) = true := by rcases hact with h | h <;> simp [h]
  rw [ha] at hv
  cases hw : (reqJ c s ins s.grantReq).we <;> cases hr : rasAllowedOf s <;> simp_all

/-- single phase: while bank machine `b` offers a command that is not accepted, the bound goes down -/
theorem omega1_step (c : Cfg) (s : State) (ins : Array BankIn) (hk : MOk c s) (hp : Pending c s) (hone : (c.nphases == 1) = true)
    (hnref : s.fsm ≠ .refresh) (b : Nat) (hb : b < c.nbm) (hv : (reqJ c s ins b).valid = true) (hnr : bmReadyOf c s ins b = false) :
    (step c s ins).1.fsm = .refresh ∨ omega1 c (step c s ins).1 b + 1 ≤ omega1 c s b := by
  obtain ⟨hws, hcs, hstr⟩ := strobes_pending1 c s ins hp hone hk.gr
  obtain ⟨hM0, hM⟩ := muxWait_step c s ins hk hp hws
  rcases hM with hM | hM
  · left; exact hM
  right
  obtain ⟨hRi, hRany, _⟩ := rasWait_step c s ins hk
  obtain ⟨hK, hKact⟩ := kAct_step c s ins hp
  have hC := rem_idle (some c.tCCD) s.tccd hk.tccd
  have hCst : (step c s ins).1.tccd = TX.step (some c.tCCD) s.tccd false := by rw [CtlTiming.step_tccd, hcs]
  obtain ⟨hcv, hca⟩ := cReq_pending1 c s ins hp hone hk.gr
  rw [bmReady_pending1 c s ins hone, reqAccept_eq] at hnr
  rw [reqAccept_eq] at hstr
  have hdle : ∀ g, C05.dist c.nbm g b ≤ c.nbm - 1 := fun g => C05.dist_le c.nbm g b (by have := hk.gr; omega)
  simp only [omega1, hCst, hC.1]
  generalize hK1 : rasInc c + c.nbm = K1 at *
  have hmul : ∀ k' k : Nat, k' + 1 ≤ k → k' * K1 + K1 ≤ k * K1 := by
    intro k' k h
    have := Nat.mul_le_mul_right K1 h
    rw [Nat.add_mul, Nat.one_mul] at this; exact this
  have hmulle : kAct c (step c s ins).1 * K1 ≤ kAct c s * K1 := Nat.mul_le_mul_right _ hK
  -- nothing accepted: no strobe; the grant does not move away from a requester the chooser sees
  have hquiet : reqReadyOf c s ins = false →
      rasWait c (step c s ins).1 ≤ rasWait c s ∧ (rasAllowedOf s = false → rasWait c (step c s ins).1 + 1 ≤ rasWait c s) ∧
      (rasAllowedOf s = true → rasAllowedOf (step c s ins).1 = true ∧
        ((vReqOf c s ins)[b]! = true → C05.dist c.nbm (step c s ins).1.grantReq b ≤ C05.dist c.nbm s.grantReq b)) := by
    intro hrr
    have hs0 : CtlTiming.actStrobeOf c s ins = false := by rw [hstr, hrr]; simp
    refine ⟨(hRi hs0).1, (hRi hs0).2, fun hra => ⟨ras_stays c s ins hk hs0 hra, fun hvb => ?_⟩⟩
    obtain ⟨hD0, hD1⟩ := dist_step1 c s ins hk b hb hvb
    cases hce : (reqReadyOf c s ins || !(combOf c s ins).cReq.valid)
    · rw [hD0 hce]; exact Nat.le_refl _
    · by_cases hg : s.grantReq = b
      · rw [hrr] at hce; simp at hce
        rw [hcv, hg, hvb] at hce; cases hce
      · have := hD1 hce hg; omega
  have hvb_of : (rasAllowedOf s = true ∨ ¬ (s.fsm = .read ∨ s.fsm = .write)) → (vReqOf c s ins)[b]! = true := by
    intro h
    rw [vReq_pending1 c s ins hp hone b hb, hv]
    rcases h with h | h
    · simp [h]
    · cases hf : s.fsm <;> simp_all
  by_cases hact : s.fsm = .read ∨ s.fsm = .write
  · have hm0 : muxWait c s = 0 := hM0.mpr (by rcases hact with h | h <;> simp [h])
    have ha : (s.fsm == .read || s.fsm == .write) = true := by rcases hact with h | h <;> simp [h]
    cases hcas : s.tccd.ready
    · -- tCCD gate closed
      have hc1 : rem (some c.tCCD) s.tccd ≠ 0 := fun h0 => by rw [hC.2.mp h0] at hcas; cases hcas
      have hrr : reqReadyOf c s ins = false := by simp [reqReadyOf, hone, hcas]
      obtain ⟨q1, q2, q3⟩ := hquiet hrr
      cases hra : rasAllowedOf s
      · have := hdle (step c s ins).1.grantReq
        simp only [Bool.false_eq_true, if_false]
        split <;> omega
      · obtain ⟨q4, q5⟩ := q3 hra
        have := q5 (hvb_of (Or.inl hra))
        rw [q4]; simp only [if_true]; omega
    · have hc0 : rem (some c.tCCD) s.tccd = 0 := hC.2.mpr hcas
      cases hra : rasAllowedOf s
      · -- activates not allowed: only precharges can be accepted; the tRRD / tFAW wait goes down
        have hs0 : CtlTiming.actStrobeOf c s ins = false := by
          rw [hstr]
          cases hcv1 : (combOf c s ins).cReq.valid
          · simp
          · have := act_valid_ras c s ins hp hone hk hact hcv1
            rw [hra] at this; simp at this
            simp [this]
        have := (hRi hs0).2 hra
        have := hdle (step c s ins).1.grantReq
        simp only [Bool.false_eq_true, if_false]
        split <;> omega
      · -- everything open: whoever holds the grant is served
        have hvb := hvb_of (Or.inl hra)
        have hrr : reqReadyOf c s ins = true := by
          unfold rasAllowedOf at hra
          simp [reqReadyOf, hone, hcas, ha, hra]
        obtain ⟨_, hD1⟩ := dist_step1 c s ins hk b hb hvb
        have hce : (reqReadyOf c s ins || !(combOf c s ins).cReq.valid) = true := by simp [hrr]
        have hg : s.grantReq ≠ b := fun hg => by
          rw [hcv, hg, hvb, hrr] at hnr; simp at hnr
        have hd := hD1 hce hg
        cases hs : CtlTiming.actStrobeOf c s ins
        · have := (hRi hs).1
          rw [ras_stays c s ins hk hs hra]; simp only [if_true]; omega
        · -- an activate of another bank machine
          rw [hstr, hrr] at hs
          simp only [Bool.and_true, Bool.and_eq_true] at hs
          have hgv : (vReqOf c s ins)[s.grantReq]! = true := by rw [← hcv]; exact hs.1
          rw [vReq_pending1 c s ins hp hone _ hk.gr] at hgv
          have hwe : (reqJ c s ins s.grantReq).we = false := by
            rw [hca] at hs; simp at hs; exact hs.2.2
          obtain ⟨_, _, _, _, h5, h6, _⟩ := reqJ_pending c s ins hp s.grantReq
          have hvalid : (reqJ c s ins s.grantReq).valid = true := by simp at hgv; exact hgv.1
          rw [h6] at hwe
          rw [h5, hwe] at hvalid
          simp only [Bool.false_or, Bool.and_eq_true, beq_iff_eq] at hvalid
          have hrdy : bmReadyOf c s ins s.grantReq = true := by
            rw [bmReady_pending1 c s ins hone, reqAccept_eq, hs.1, hrr]; simp
          have hk1 := hmul _ _ (hKact s.grantReq hk.gr hvalid.1 hvalid.2 hrdy)
          have := hdle (step c s ins).1.grantReq
          have hK1' : rasInc c + c.nbm = K1 := hK1
          have hinc : rasInc c ≤ K1 := by omega
          simp only [if_true]
          split <;> omega
  · -- WTR / RTW
    have hm1 : muxWait c s ≠ 0 := fun h0 => by
      rcases hM0.mp h0 with h | h | h
      · exact hact (Or.inl h)
      · exact hact (Or.inr h)
      · exact hnref h
    have hrr : reqReadyOf c s ins = false := by
      simp only [reqReadyOf]
      cases hf : s.fsm <;> simp_all
    obtain ⟨q1, q2, q3⟩ := hquiet hrr
    cases hra : rasAllowedOf s
    · have := hdle (step c s ins).1.grantReq
      simp only [Bool.false_eq_true, if_false]
      split <;> omega
    · obtain ⟨q4, q5⟩ := q3 hra
      have := q5 (hvb_of (Or.inr hact))
      rw [q4]; simp only [if_true]; omega

theorem omega1_zero (c : Cfg) (s : State) (ins : Array BankIn) (hk : MOk c s) (hp : Pending c s) (hone : (c.nphases == 1) = true)
    (hnref : s.fsm ≠ .refresh) (b : Nat) (hb : b < c.nbm) (hv : (reqJ c s ins b).valid = true) (h0 : omega1 c s b = 0) :
    bmReadyOf c s ins b = true := by
  obtain ⟨hws, _, _⟩ := strobes_pending1 c s ins hp hone hk.gr
  obtain ⟨hM0, _⟩ := muxWait_step c s ins hk hp hws
  obtain ⟨_, _, hR0⟩ := rasWait_step c s ins hk
  have hC := rem_idle (some c.tCCD) s.tccd hk.tccd
  simp only [omega1] at h0
  have hm : muxWait c s = 0 := by omega
  have hr : rasWait c s = 0 := by omega
  have hc : rem (some c.tCCD) s.tccd = 0 := by omega
  have hra := hR0 hr
  rw [hra] at h0
  simp only [if_true] at h0
  have hd : C05.dist c.nbm s.grantReq b = 0 := by omega
  have hg : s.grantReq = b := C05.dist_zero c.nbm _ _ hk.gr hb hd
  have hact : s.fsm = .read ∨ s.fsm = .write := by
    rcases hM0.mp hm with h | h | h
    · exact Or.inl h
    · exact Or.inr h
    · exact absurd h hnref
  have hcas := hC.2.mp hc
  obtain ⟨hcv, _⟩ := cReq_pending1 c s ins hp hone hk.gr
  have hvb : (vReqOf c s ins)[b]! = true := by
    rw [vReq_pending1 c s ins hp hone b hb, hv, hra]; simp
  rw [bmReady_pending1 c s ins hone, reqAccept_eq, hcv, hg, hvb]
  unfold rasAllowedOf at hra
  simp only [reqReadyOf, hone, hcas]
  rcases hact with h | h <;> simp [h, hra]

theorem omega1_le (c : Cfg) (s : State) (hk : MOk c s) (b : Nat) : omega1 c s b ≤ omega1Max c := by
  have h1 := rem_le _ _ hk.twtr
  have h2 := rem_le _ _ hk.trrd
  have h3 := tfPot_le _ _ hk.tfaw
  have h6 := rem_le _ _ hk.tccd
  have h4 : muxWait c s ≤ remMax (some c.twtr) + 1 + c.readLatency := by
    simp only [muxWait]; cases s.fsm <;> simp only [] <;> omega
  have h5 : (if rasAllowedOf s then C05.dist c.nbm s.grantReq b else c.nbm - 1) ≤ c.nbm - 1 := by
    have := C05.dist_le c.nbm s.grantReq b (by have := hk.gr; omega)
    split <;> omega
  have h7 : kAct c s ≤ c.nbm * 1 := sumUpTo_bound _ _ _ (fun j _ => canAct_le_one _)
  have h8 : kAct c s * (rasInc c + c.nbm) ≤ c.nbm * (rasInc c + c.nbm) := Nat.mul_le_mul_right _ (by omega)
  simp only [omega1, omega1Max, rasWait]
  omega

/-! ### both kinds of configuration -/
def omegaG (c : Cfg) (s : State) (b : Nat) : Nat := if c.nphases == 1 then omega1 c s b else omegaB c s b
theorem wrStrobe_false (c : Cfg) (s : State) (ins : Array BankIn) (hk : MOk c s) (hp : Pending c s) : CtlTiming.wrStrobeOf c s ins = false := by
  cases hone : (c.nphases == 1)
  · exact (wrStrobe_pending c s ins hp hone).1
  · exact (strobes_pending1 c s ins hp hone hk.gr).1

theorem omegaG_step (c : Cfg) (s : State) (ins : Array BankIn) (hk : MOk c s) (hp : Pending c s)
    (hnref : s.fsm ≠ .refresh) (b : Nat) (hb : b < c.nbm) (hv : (reqJ c s ins b).valid = true) (hnr : bmReadyOf c s ins b = false) :
    (step c s ins).1.fsm = .refresh ∨ omegaG c (step c s ins).1 b + 1 ≤ omegaG c s b := by
  unfold omegaG
  cases hone : (c.nphases == 1)
  · simpa using omega_step c s ins hk hp hone hnref b hb hv hnr
  · simpa using omega1_step c s ins hk hp hone hnref b hb hv hnr

theorem omegaG_zero (c : Cfg) (s : State) (ins : Array BankIn) (hk : MOk c s) (hp : Pending c s)
    (hnref : s.fsm ≠ .refresh) (b : Nat) (hb : b < c.nbm) (hv : (reqJ c s ins b).valid = true) (h0 : omegaG c s b = 0) :
    bmReadyOf c s ins b = true := by
  unfold omegaG at h0
  cases hone : (c.nphases == 1)
  · rw [hone] at h0; exact omega_zero c s ins hk hp hone hnref b hb hv (by simpa using h0)
  · rw [hone] at h0; exact omega1_zero c s ins hk hp hone hnref b hb hv (by simpa using h0)

theorem omegaG_le (c : Cfg) (s : State) (hk : MOk c s) (b : Nat) : omegaG c s b ≤ omegaGMax c := by
  unfold omegaG omegaGMax
  cases hone : (c.nphases == 1)
  · simpa using omega_le c s hk b
  · simpa using omega1_le c s hk b

end CtlLive
