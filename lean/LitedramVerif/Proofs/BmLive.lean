/-
Bounded liveness of one bank machine under a pending refresh request (helper lemmas for Props/C04_BankMachine.lean).
 * `rem`        cycles until a tXXD timer that receives no further strobe is ready (from reset the counter first wraps)
 * `phi`        explicit upper bound on the cycles until `refresh_gnt`, as a function of FSM state, timers and the time the
                current command has been waiting for the multiplexer
 * `phi_step`   one clock edge with `refresh_req` held: either `refresh_gnt` is up or `phi` goes down by at least one
-/
import LitedramVerif.Proofs.BmTiming
import LitedramVerif.Model.LiveBound
namespace BmLive
open Hw BankMachine

/-- cycles until a tXXD timer that receives no further strobe is ready -/
def rem (t : Option Nat) (tx : TX) : Nat :=
  match t with
  | none => 0
  | some x => if tx.ready then 0 else if tx.count = 0 then 2 ^ maxBits (max x 2) else tx.count

def TxOk (t : Option Nat) (tx : TX) : Prop :=
  match t with
  | none => tx.ready = true
  | some x => tx.count < 2 ^ maxBits (max x 2)

theorem txok_init (t : Option Nat) : TxOk t (TX.init t) := by
  cases t <;> simp [TxOk, TX.init]
  exact Nat.two_pow_pos _

theorem txok_step (t : Option Nat) (tx : TX) (v : Bool) (h : TxOk t tx) : TxOk t (TX.step t tx v) := by
  cases t with
  | none => simpa [TxOk, TX.step] using h
  | some x =>
    simp only [TxOk, TX.step] at h ⊢
    split
    · exact Nat.mod_lt _ (Nat.two_pow_pos _)
    · split
      · exact Nat.mod_lt _ (Nat.two_pow_pos _)
      · exact h

/-- without a strobe the remaining time goes down by one per cycle (until ready) -/
theorem rem_idle (t : Option Nat) (tx : TX) (h : TxOk t tx) :
    rem t (TX.step t tx false) = rem t tx - 1 ∧ (rem t tx = 0 ↔ tx.ready = true) := by
  cases t with
  | none => simp [rem, TxOk] at h ⊢; exact h
  | some x =>
    simp only [TxOk] at h
    have hp : 0 < 2 ^ maxBits (max x 2) := Nat.two_pow_pos _
    have h2 : 2 ≤ 2 ^ maxBits (max x 2) := by
      have : 1 ≤ maxBits (max x 2) := by
        unfold maxBits bitsFor; split <;> omega
      calc 2 = 2 ^ 1 := rfl
        _ ≤ 2 ^ maxBits (max x 2) := Nat.pow_le_pow_right (by decide) this
    constructor
    · simp only [rem, TX.step, Bool.false_eq_true, if_false]
      cases hr : tx.ready
      · simp only [Bool.not_false, if_true, Bool.false_eq_true, if_false]
        by_cases h0 : tx.count = 0
        · have : (0 + 2 ^ maxBits (max x 2) - 1) % 2 ^ maxBits (max x 2) = 2 ^ maxBits (max x 2) - 1 := by
            rw [Nat.zero_add]; exact Nat.mod_eq_of_lt (by omega)
          have hne : ¬ 2 ^ maxBits (max x 2) - 1 = 0 := by omega
          simp [h0, this, hne]
        · have e : (tx.count + 2 ^ maxBits (max x 2) - 1) % 2 ^ maxBits (max x 2) = tx.count - 1 := by
            have : tx.count + 2 ^ maxBits (max x 2) - 1 = (tx.count - 1) + 2 ^ maxBits (max x 2) := by omega
            rw [this, Nat.add_mod_right, Nat.mod_eq_of_lt (by omega)]
          rw [e]
          by_cases h1 : tx.count = 1
          · simp [h1]
          · have : (tx.count == 1) = false := by simpa using h1
            simp [this, h0]; omega
      · simp [hr]
    · simp only [rem]
      cases hr : tx.ready <;> simp
      split <;> omega

theorem rem_strobe (x : Nat) (tx : TX) : rem (some x) (TX.step (some x) tx true) ≤ x - 1 := by
  have hb := C03.bits_ok x
  simp only [rem, TX.step, if_true]
  by_cases h1 : x - 1 = 0
  · simp [h1]
  · have : (x - 1 == 0) = false := by simpa using h1
    simp only [this, Bool.false_eq_true, if_false, Nat.mod_eq_of_lt hb, h1]
    omega

theorem rem_strobe_opt (t : Option Nat) (tx : TX) : rem t (TX.step t tx true) ≤ t.getD 0 := by
  cases t with
  | none => simp [rem]
  | some x => have := rem_strobe x tx; simp; omega

structure TOk (c : Cfg) (s : State) : Prop where
  w : TxOk (some c.twtp) s.twtp
  a : TxOk c.tRAS s.tras
  r : TxOk c.tRC s.trc

/-- an upper bound on the cycles until this bank machine grants a pending refresh request; `A` = cycles within which the
multiplexer accepts a command that stays valid, `w` = cycles the current command has been waiting -/
def phi (c : Cfg) (A : Nat) (s : State) (w : Nat) : Nat :=
  let W := rem (some c.twtp) s.twtp
  let Aa := rem c.tRAS s.tras
  let C := rem c.tRC s.trc
  let RAS := c.tRAS.getD 0
  let rest := c.tRCD + 2 + W + RAS             -- from the accepted ACT to the grant
  match s.fsm with
  | .refresh => W + Aa
  | .regular => 1 + W + Aa
  | .trcd k => (c.tRCD - 1 - k) + 2 + W + Aa
  | .activate => (if C = 0 then A - w else C + A) + rest
  | .trp k => (c.tRP - 1 - k) + 1 + (C + A + rest)
  | .precharge => (if W + Aa = 0 then A - w else W + Aa + A) + c.tRP + 1 + (C + A + rest)
  | .autoprecharge => W + Aa + 1 + c.tRP + 1 + (C + A + rest)

/-- the wait counter of the acceptance contract -/
def wNext (c : Cfg) (s : State) (i : In) (w : Nat) : Nat :=
  if (BankMachine.step c s i).2.cmdValid && !i.ready then w + 1 else 0

open BmTiming in
theorem outs_refresh (c : Cfg) (s : State) (i : In) (hr : i.refresh = true) :
    (BankMachine.step c s i).2.cmdValid =
      ((s.fsm == .precharge && s.twtp.ready && s.tras.ready) || (s.fsm == .activate && s.trc.ready)) ∧
    (BankMachine.step c s i).2.refreshGnt = (s.fsm == .refresh && s.twtp.ready && s.tras.ready) ∧
    wrStrobe c s i = false ∧
    actStrobe c s i = (s.fsm == .activate && s.trc.ready && i.ready) ∧
    (BankMachine.step c s i).1.fsm = nxt c s.fsm i.ready true s.bufValid s.rowOpened (s.row == rowFull c s.buf.addr) (apx c s i)
        s.twtp.ready s.tras.ready s.trc.ready := by
  have e := (step_summary c s i).1
  rw [hr] at e
  refine ⟨?_, ?_, ?_, ?_, e⟩
  · simp only [BankMachine.step, hr]; cases s.fsm <;> simp
  · simp only [BankMachine.step]
  · simp only [wrStrobe, BankMachine.step, hr]; cases s.fsm <;> simp
  · simp only [actStrobe, BankMachine.step, hr]; cases s.fsm <;> cases i.ready <;> simp

theorem tok_step (c : Cfg) (s : State) (i : In) (h : TOk c s) : TOk c (BankMachine.step c s i).1 :=
  ⟨by rw [BmTiming.step_twtp]; exact txok_step _ _ _ h.w, by rw [BmTiming.step_tras]; exact txok_step _ _ _ h.a,
   by rw [BmTiming.step_trc]; exact txok_step _ _ _ h.r⟩

open BmTiming in
/-- one clock edge with the refresh request pending: either the grant is up, or the bound goes down -/
theorem phi_step (c : Cfg) (A : Nat) (s : State) (i : In) (w : Nat) (hk : TOk c s) (hr : i.refresh = true) (hw : w < A)
    (hfair : (BankMachine.step c s i).2.cmdValid = true → w + 1 = A → i.ready = true) :
    (BankMachine.step c s i).2.refreshGnt = true ∨
    (phi c A (BankMachine.step c s i).1 (wNext c s i w) + 1 ≤ phi c A s w ∧ wNext c s i w < A) := by
  obtain ⟨eV, eG, eW, eA, eF⟩ := outs_refresh c s i hr
  have hW := rem_idle (some c.twtp) s.twtp hk.w
  have hA := rem_idle c.tRAS s.tras hk.a
  have hC := rem_idle c.tRC s.trc hk.r
  have hAs := rem_strobe_opt c.tRAS s.tras
  have hCs := rem_strobe_opt c.tRC s.trc
  simp only [wNext, phi, step_twtp, step_tras, step_trc, eW, eA, eF, eG, eV] at hfair ⊢
  generalize rem (some c.twtp) s.twtp = W at *
  generalize rem c.tRAS s.tras = Aa at *
  generalize rem c.tRC s.trc = C at *
  obtain ⟨hW1, hW2⟩ := hW
  obtain ⟨hA1, hA2⟩ := hA
  obtain ⟨hC1, hC2⟩ := hC
  clear eW eV eG eA eF hk
  cases hf : s.fsm <;> cases hrdy : i.ready <;> cases htc : s.trc.ready <;>
    simp [hf, hrdy, htc, nxt, enter] at * <;> grind

theorem rem_le (t : Option Nat) (tx : TX) (h : TxOk t tx) : rem t tx ≤ remMax t := by
  cases t with
  | none => simp [rem, remMax]
  | some x => simp only [rem, remMax, TxOk] at *; split <;> (try split) <;> omega

theorem phi_le (c : Cfg) (A : Nat) (s : State) (w : Nat) (hk : TOk c s) : phi c A s w ≤ phiMax c A := by
  have h1 := rem_le _ _ hk.w
  have h2 := rem_le _ _ hk.a
  have h3 := rem_le _ _ hk.r
  have h4 : rem c.tRAS s.tras ≤ remMax c.tRAS + c.tRAS.getD 0 := by omega
  simp only [phi, phiMax]
  cases s.fsm <;> simp only [] <;> (try split) <;> omega

end BmLive
