/-
Helper lemmas (no property statements) for the bounded liveness of the refresh handshake in the composed controller
(Props/C04_Controller.lean), multi-phase part: while the refresher waits for the bank machines (`Pending`),
 * the bank machines only offer precharges and activates (`reqJ_pending`), the request chooser accepts nothing and the
   command chooser sees exactly the valid requests (`vCmd_pending`, `cCmd_pending`, `reqAccept_pending`)
 * `muxWait`   cycles until the multiplexer FSM is back in READ/WRITE (`muxWait_step`)
 * `rasWait`   tRRD / tFAW potential: goes down while activates are gated, rises by at most `rasInc` per activate (`rasWait_step`)
 * `omegaB`    bound on the cycles until the command offered by bank machine b is accepted:
               muxWait + (round-robin distance of the grant) · (rasInc + 1) + rasWait   (`omega_step`, `omega_zero`, `omega_le`)
 * `MOk`       the (simple) invariant the potentials need: timer counters in range, tFAW window length, grants in range
-/
import LitedramVerif.Proofs.BmLive
import LitedramVerif.Proofs.CtlTiming
import LitedramVerif.Props.C05
namespace CtlLive
open Controller Hw CtlInv BmLive

/-! ### requests of a bank machine while `refresh_req` is up -/
theorem req_pending (c : BankMachine.Cfg) (s : BankMachine.State) (v w : Bool) (a : Nat) :
    let r := BankMachine.req c s v w a true
    r.isRead = false ∧ r.isWrite = false ∧ r.cas = false ∧ r.ras = r.valid ∧
    r.valid = ((s.fsm == .precharge && s.twtp.ready && s.tras.ready) || (s.fsm == .activate && s.trc.ready)) ∧
    r.we = (s.fsm == .precharge && s.twtp.ready && s.tras.ready) ∧
    r.refreshGnt = (s.fsm == .refresh && s.twtp.ready && s.tras.ready) := by
  simp only [BankMachine.req, BankMachine.step]
  cases s.fsm <;> simp

/-- `cmd.valid` does not depend on `cmd.ready` -/
theorem cmdValid_req (c : BankMachine.Cfg) (s : BankMachine.State) (i : BankMachine.In) :
    (BankMachine.step c s i).2.cmdValid = (BankMachine.req c s i.valid i.we i.addr i.refresh).valid ∧
    (BankMachine.step c s i).2.refreshGnt = (BankMachine.req c s i.valid i.we i.addr i.refresh).refreshGnt := by
  simp only [BankMachine.req, BankMachine.step]; simp

/-! ### the multiplexer's command chooser -/
def vCmdOf (c : Cfg) (s : State) (ins : Array BankIn) : Array Bool :=
  (reqsOf c s ins).map fun r => chooserValid r false false false ((s.fsm == .read || s.fsm == .write) && (s.trrd.ready && s.tfaw.ready))
def cmdReadyOf (c : Cfg) (s : State) (ins : Array BankIn) : Bool :=
  (s.fsm == .read || s.fsm == .write) && !(c.nphases == 1) && (!(combOf c s ins).cCmd.activate || (s.trrd.ready && s.tfaw.ready))

theorem step_grantCmd (c : Cfg) (s : State) (ins : Array BankIn) :
    (step c s ins).1.grantCmd = rrStep c.nbm s.grantCmd (fun i => (vCmdOf c s ins)[i]!) (cmdReadyOf c s ins || !(combOf c s ins).cCmd.valid) := rfl

theorem cmdAccept_eq (c : Cfg) (s : State) (ins : Array BankIn) :
    (combOf c s ins).cmdAccept = ((combOf c s ins).cCmd.valid && cmdReadyOf c s ins) := rfl

theorem cCmd_valid (c : Cfg) (s : State) (ins : Array BankIn) : (combOf c s ins).cCmd.valid = (vCmdOf c s ins)[s.grantCmd]! := rfl

/-- the refresher waits for the bank machines -/
def Pending (c : Cfg) (s : State) : Prop := (roOf c s).valid = true

theorem reqJ_pending (c : Cfg) (s : State) (ins : Array BankIn) (hp : Pending c s) (j : Nat) :
    let r := reqJ c s ins j
    r.isRead = false ∧ r.isWrite = false ∧ r.cas = false ∧ r.ras = r.valid ∧
    r.valid = (((s.bms[j]!).fsm == .precharge && (s.bms[j]!).twtp.ready && (s.bms[j]!).tras.ready) || ((s.bms[j]!).fsm == .activate && (s.bms[j]!).trc.ready)) ∧
    r.we = ((s.bms[j]!).fsm == .precharge && (s.bms[j]!).twtp.ready && (s.bms[j]!).tras.ready) ∧
    r.refreshGnt = ((s.bms[j]!).fsm == .refresh && (s.bms[j]!).twtp.ready && (s.bms[j]!).tras.ready) := by
  unfold Pending at hp
  simp only [reqJ, hp]
  exact req_pending _ _ _ _ _

theorem vCmd_pending (c : Cfg) (s : State) (ins : Array BankIn) (hp : Pending c s) (j : Nat) (hj : j < c.nbm) :
    (vCmdOf c s ins)[j]! = (reqJ c s ins j).valid := by
  have hlt : j < (reqsOf c s ins).size := by rw [reqsOf_size]; exact hj
  obtain ⟨h1, h2, _⟩ := reqJ_pending c s ins hp j
  unfold vCmdOf
  rw [getElem!_pos _ j (by simpa using hlt)]
  simp only [Array.getElem_map]
  have : (reqsOf c s ins)[j] = reqJ c s ins j := by
    rw [← reqsOf_get c s ins j hj, getElem!_pos _ j hlt]
  rw [this]
  simp [chooserValid, h1, h2]

theorem cCmd_pending (c : Cfg) (s : State) (ins : Array BankIn) (hp : Pending c s) (hg : s.grantCmd < c.nbm) :
    (combOf c s ins).cCmd.valid = (reqJ c s ins s.grantCmd).valid ∧
    (combOf c s ins).cCmd.activate = ((reqJ c s ins s.grantCmd).valid && !(reqJ c s ins s.grantCmd).we) := by
  have hv := vCmd_pending c s ins hp _ hg
  obtain ⟨h1, h2, h3, h4, _⟩ := reqJ_pending c s ins hp s.grantCmd
  have e : (combOf c s ins).cCmd = choose (reqsOf c s ins) (vCmdOf c s ins) s.grantCmd := rfl
  rw [e]
  simp only [choose, Chosen.activate, hv, reqsOf_get c s ins _ hg, h3, h4]
  cases (reqJ c s ins s.grantCmd).valid <;> simp

/-- with a request pending and several phases the request chooser accepts nothing -/
theorem reqAccept_pending (c : Cfg) (s : State) (ins : Array BankIn) (hp : Pending c s) (hone : (c.nphases == 1) = false) :
    (combOf c s ins).reqAccept = false := by
  rw [Bool.eq_false_iff]
  intro h
  simp only [combOf, Bool.and_eq_true] at h
  obtain ⟨hv, hrdy⟩ := h
  have hv' : ((reqsOf c s ins).map fun r => chooserValid r (s.fsm == .read) (s.fsm == .write) (c.nphases == 1)
      (c.nphases == 1 && (s.trrd.ready && s.tfaw.ready)))[s.grantReq]! = true := hv
  obtain ⟨hlt, hcv⟩ := map_get_true _ _ _ hv'
  rw [reqsOf_size] at hlt
  rw [reqsOf_get c s ins _ hlt] at hcv
  obtain ⟨h1, h2, _⟩ := reqJ_pending c s ins hp s.grantReq
  simp only [chooserValid, h1, h2, hone] at hcv
  cases hf : s.fsm <;> simp [hf] at hcv hrdy

/-! ### potentials of the multiplexer -/
/-- cycles until the multiplexer FSM is back in READ or WRITE -/
def muxWait (c : Cfg) (s : State) : Nat :=
  match s.fsm with
  | .wtr => rem (some c.twtr) s.twtr + 1
  | .rtw k => (c.readLatency - 1 - k) + 1
  | _ => 0

/-- total remaining lifetime of the activates in the tFAW window (`t` for the newest position, one less for each older one) -/
def tfMu : Nat → List Bool → Nat
  | _, [] => 0
  | t, b :: rest => (if b then t else 0) + tfMu (t - 1) rest

def TfOk (t : Option Nat) (s : TF) : Prop :=
  match t with
  | none => s.ready = true
  | some f => s.window.length = f

def tfPot (t : Option Nat) (s : TF) : Nat :=
  match t with
  | none => 0
  | some f => tfMu f s.window + (if s.ready then 0 else 1)

/-- an upper bound on the cycles until activates are allowed again (tRRD and tFAW gates), given no further activate -/
def rasWait (c : Cfg) (s : State) : Nat := rem c.tRRD s.trrd + tfPot c.tFAW s.tfaw
theorem tfMu_take (t : Nat) (w : List Bool) : tfMu t (w.take t) = tfMu t w := by
  induction w generalizing t with
  | nil => simp [tfMu]
  | cons b rest ih =>
    cases t with
    | zero =>
      simp only [List.take_zero, tfMu]
      have : ∀ l : List Bool, tfMu 0 l = 0 := by
        intro l; induction l with
        | nil => rfl
        | cons x xs ihx => simp [tfMu, ihx]
      simp [this]
    | succ n => simp [List.take_succ_cons, tfMu, ih]

theorem tfMu_pred (t : Nat) (w : List Bool) (hl : w.length ≤ t) : tfMu (t - 1) w + (w.filter id).length = tfMu t w := by
  induction w generalizing t with
  | nil => simp [tfMu]
  | cons b rest ih =>
    simp only [List.length_cons] at hl
    have := ih (t - 1) (by omega)
    simp only [tfMu]
    cases b <;> simp <;> omega

theorem tfok_init (t : Option Nat) : TfOk t (TF.init t) := by cases t <;> simp [TfOk, TF.init]

theorem tfok_step (t : Option Nat) (s : TF) (v : Bool) (h : TfOk t s) : TfOk t (TF.step t s v) := by
  cases t with
  | none => simpa [TfOk, TF.step] using h
  | some f => simp only [TfOk, TF.step] at *; simp [List.length_take]; omega

theorem tf_aux (q n m M : Nat) (r : Bool) (hq : q ≤ n) (hp : m + n = M) :
    (m + if (if q < 4 then (if (q == 3) = true then !false else true) else r) = true then 0 else 1) ≤ (M + if r = true then 0 else 1) ∧
    (r = false → (m + if (if q < 4 then (if (q == 3) = true then !false else true) else r) = true then 0 else 1) + 1 ≤ (M + if r = true then 0 else 1)) ∧
    ((M + if r = true then 0 else 1) = 0 → r = true) := by
  refine ⟨?_, ?_, ?_⟩
  · cases r <;> by_cases hc : q < 4 <;> simp [hc] <;> omega
  · intro hr
    by_cases hc : q < 4 <;> simp [hc, hr] <;> omega
  · intro h0; cases r <;> simp at h0 ⊢

/-- without an activate the potential goes down until `ready`; it is 0 only if `ready` -/
theorem tfPot_idle (t : Option Nat) (s : TF) (h : TfOk t s) :
    tfPot t (TF.step t s false) ≤ tfPot t s ∧ (s.ready = false → tfPot t (TF.step t s false) + 1 ≤ tfPot t s) ∧
    (tfPot t s = 0 → s.ready = true) := by
  cases t with
  | none => simp only [TfOk] at h; simp [tfPot, h]
  | some f =>
    simp only [TfOk] at h
    have hmu : tfMu f ((false :: s.window).take f) = tfMu (f - 1) s.window := by
      rw [tfMu_take]; simp [tfMu]
    have hp := tfMu_pred f s.window (by omega)
    have hq : (s.window.filter id).length % 2 ^ maxBits (max f 2) ≤ (s.window.filter id).length := Nat.mod_le _ _
    simp only [tfPot, TF.step, hmu, TF.count]
    exact tf_aux _ _ _ _ _ hq hp

theorem tfPot_strobe (t : Option Nat) (s : TF) (h : TfOk t s) (v : Bool) :
    tfPot t (TF.step t s v) ≤ tfPot t s + t.getD 0 + 1 := by
  cases t with
  | none => simp [tfPot]
  | some f =>
    simp only [TfOk] at h
    have hmu : tfMu f ((v :: s.window).take f) = (if v then f else 0) + tfMu (f - 1) s.window := by
      rw [tfMu_take]; simp [tfMu]
    have hp := tfMu_pred f s.window (by omega)
    simp only [tfPot, TF.step, hmu, Option.getD_some]
    have h1 : (if v = true then f else 0) ≤ f := by split <;> omega
    have h2 : ∀ b : Bool, (if b = true then 0 else 1) ≤ 1 := by intro b; cases b <;> simp
    refine Nat.le_trans (Nat.add_le_add_left (h2 _) _) ?_
    omega

/-! ### the invariant the potentials need (holds from reset, `mok_step`) -/
structure MOk (c : Cfg) (s : State) : Prop where
  trrd : TxOk c.tRRD s.trrd
  twtr : TxOk (some c.twtr) s.twtr
  tccd : TxOk (some c.tCCD) s.tccd
  tfaw : TfOk c.tFAW s.tfaw
  gc : s.grantCmd < c.nbm
  gr : s.grantReq < c.nbm
  size : s.bms.size = c.nbm
  bm : ∀ b, b < c.nbm → TOk c.bm s.bms[b]!

theorem rrStep_lt (n g : Nat) (req : Nat → Bool) (ce : Bool) (hg : g < n) : rrStep n g req ce < n := by
  unfold rrStep; split
  · exact C05.rrNext_lt n g req (by omega) hg
  · exact hg

theorem mok_step (c : Cfg) (s : State) (ins : Array BankIn) (h : MOk c s) : MOk c (step c s ins).1 where
  trrd := by rw [CtlTiming.step_trrd]; exact txok_step _ _ _ h.trrd
  twtr := by rw [CtlTiming.step_twtr]; exact txok_step _ _ _ h.twtr
  tccd := by rw [CtlTiming.step_tccd]; exact txok_step _ _ _ h.tccd
  tfaw := by rw [CtlTiming.step_tfaw]; exact tfok_step _ _ _ h.tfaw
  gc := by rw [step_grantCmd]; exact rrStep_lt _ _ _ _ h.gc
  gr := by
    have : (step c s ins).1.grantReq = rrStep c.nbm s.grantReq _ _ := rfl
    rw [this]; exact rrStep_lt _ _ _ _ h.gr
  size := step_bms_size c s ins
  bm := by
    intro b hb
    rw [step_bms c s ins b hb]
    exact tok_step _ _ _ (h.bm b hb)

theorem mok_init (c : Cfg) (hn : 0 < c.nbm) : MOk c (init c) where
  trrd := txok_init _
  twtr := txok_init _
  tccd := txok_init _
  tfaw := tfok_init _
  gc := hn
  gr := hn
  size := by simp [init]
  bm := by
    intro b hb
    have : (init c).bms[b]! = BankMachine.State.init c.bm := by
      simp only [init]
      rw [getElem!_pos _ b (by simpa using hb)]
      simp
    rw [this]
    exact ⟨txok_init _, txok_init _, txok_init _⟩

theorem any_reqs_false (c : Cfg) (s : State) (ins : Array BankIn) (p : BankMachine.Req → Bool)
    (h : ∀ j, j < c.nbm → p (reqJ c s ins j) = false) : (reqsOf c s ins).any p = false := by
  rw [Bool.eq_false_iff]
  intro ht
  rw [Array.any_eq_true] at ht
  obtain ⟨i, hi, hpi⟩ := ht
  have hi' : i < c.nbm := by rw [reqsOf_size] at hi; exact hi
  have : (reqsOf c s ins)[i] = reqJ c s ins i := by
    rw [← reqsOf_get c s ins i hi', getElem!_pos _ i hi]
  rw [this, h i hi'] at hpi
  cases hpi

theorem fsm_pending (c : Cfg) (s : State) (ins : Array BankIn) (hp : Pending c s) :
    (step c s ins).1.fsm = match s.fsm with
      | .read => if goRefreshOf c s ins then .refresh else .read
      | .write => if goRefreshOf c s ins then .refresh else .write
      | .refresh => if (roOf c s).last then .read else .refresh
      | .wtr => if s.twtr.ready then .read else .wtr
      | .rtw k => if k + 1 < c.readLatency - 1 then .rtw (k + 1) else .write := by
  rw [step_fsm]
  have hr : (reqsOf c s ins).any (fun r => r.valid && r.isRead) = false :=
    any_reqs_false c s ins _ (fun j _ => by simp [(reqJ_pending c s ins hp j).1])
  have hw : (reqsOf c s ins).any (fun r => r.valid && r.isWrite) = false :=
    any_reqs_false c s ins _ (fun j _ => by simp [(reqJ_pending c s ins hp j).2.1])
  simp only [fsmNext, hr, hw]
  cases s.fsm <;> simp

theorem wrStrobe_pending (c : Cfg) (s : State) (ins : Array BankIn) (hp : Pending c s) (hone : (c.nphases == 1) = false) :
    CtlTiming.wrStrobeOf c s ins = false ∧ CtlTiming.casStrobeOf c s ins = false ∧
    CtlTiming.actStrobeOf c s ins = ((combOf c s ins).cmdAccept && (combOf c s ins).cCmd.activate) := by
  simp [CtlTiming.wrStrobeOf, CtlTiming.casStrobeOf, CtlTiming.actStrobeOf, reqAccept_pending c s ins hp hone, hone]

/-- the multiplexer returns to READ/WRITE -/
theorem muxWait_step (c : Cfg) (s : State) (ins : Array BankIn) (hk : MOk c s) (hp : Pending c s) (hws : CtlTiming.wrStrobeOf c s ins = false) :
    (muxWait c s = 0 ↔ (s.fsm = .read ∨ s.fsm = .write ∨ s.fsm = .refresh)) ∧
    ((step c s ins).1.fsm = .refresh ∨ muxWait c (step c s ins).1 ≤ muxWait c s - 1) := by
  have hw := rem_idle (some c.twtr) s.twtr hk.twtr
  have hst : (step c s ins).1.twtr = TX.step (some c.twtr) s.twtr false := by
    rw [CtlTiming.step_twtr, hws]
  constructor
  · simp only [muxWait]; cases s.fsm <;> simp
  · simp only [muxWait, fsm_pending c s ins hp, hst]
    cases hf : s.fsm <;> simp only []
    · split <;> simp
    · split <;> simp
    · split <;> simp
    · cases hr : s.twtr.ready
      · simp only [Bool.false_eq_true, if_false]
        have : rem (some c.twtr) s.twtr ≠ 0 := fun h0 => by rw [hw.2.mp h0] at hr; cases hr
        right; omega
      · simp
    · split
      · right; simp only []; omega
      · right; simp

def rasAllowedOf (s : State) : Bool := s.trrd.ready && s.tfaw.ready

theorem rasWait_step (c : Cfg) (s : State) (ins : Array BankIn) (hk : MOk c s) :
    (CtlTiming.actStrobeOf c s ins = false → rasWait c (step c s ins).1 ≤ rasWait c s ∧
        (rasAllowedOf s = false → rasWait c (step c s ins).1 + 1 ≤ rasWait c s)) ∧
    rasWait c (step c s ins).1 ≤ rasWait c s + rasInc c ∧
    (rasWait c s = 0 → rasAllowedOf s = true) := by
  have h1 := rem_idle c.tRRD s.trrd hk.trrd
  have h2 := tfPot_idle c.tFAW s.tfaw hk.tfaw
  have h3 := rem_strobe_opt c.tRRD s.trrd
  have h4 := tfPot_strobe c.tFAW s.tfaw hk.tfaw
  simp only [rasWait, rasInc, rasAllowedOf, CtlTiming.step_trrd, CtlTiming.step_tfaw]
  refine ⟨?_, ?_, ?_⟩
  · intro hs
    rw [hs]
    refine ⟨by omega, ?_⟩
    intro hra
    cases hr : s.trrd.ready
    · have : rem c.tRRD s.trrd ≠ 0 := fun h0 => by rw [h1.2.mp h0] at hr; cases hr
      omega
    · rw [hr] at hra; simp at hra
      have := h2.2.1 hra; omega
  · cases hs : CtlTiming.actStrobeOf c s ins
    · have := h4 false; omega
    · have := h4 true; omega
  · intro h0
    have ha : rem c.tRRD s.trrd = 0 := by omega
    have hb : tfPot c.tFAW s.tfaw = 0 := by omega
    rw [h1.2.mp ha, h2.2.2 hb]; rfl

/-- an upper bound on the cycles until the multiplexer accepts the command bank machine `b` offers -/
def omegaB (c : Cfg) (s : State) (b : Nat) : Nat :=
  muxWait c s + C05.dist c.nbm s.grantCmd b * (rasInc c + 1) + rasWait c s

theorem dist_step (c : Cfg) (s : State) (ins : Array BankIn) (hk : MOk c s) (hp : Pending c s) (b : Nat) (hb : b < c.nbm)
    (hv : (reqJ c s ins b).valid = true) :
    let ce := cmdReadyOf c s ins || !(combOf c s ins).cCmd.valid
    (ce = false → (step c s ins).1.grantCmd = s.grantCmd) ∧
    (ce = true → s.grantCmd ≠ b → C05.dist c.nbm (step c s ins).1.grantCmd b + 1 ≤ C05.dist c.nbm s.grantCmd b) ∧
    (s.grantCmd = b → (step c s ins).1.grantCmd = b ∨ ce = true) := by
  intro ce
  rw [step_grantCmd]
  refine ⟨?_, ?_, ?_⟩
  · intro h; simp only [rrStep]; rw [show (cmdReadyOf c s ins || !(combOf c s ins).cCmd.valid) = false from h]; simp
  · intro h hne
    have hn : 1 < c.nbm := by have := hk.gc; omega
    simp only [rrStep]
    rw [show (cmdReadyOf c s ins || !(combOf c s ins).cCmd.valid) = true from h]
    have : (decide (c.nbm > 1) && true) = true := by simp; omega
    rw [if_pos this]
    have := C05.rr_closer c.nbm s.grantCmd b (fun i => (vCmdOf c s ins)[i]!) hn hk.gc hb hne
      (by rw [vCmd_pending c s ins hp b hb]; exact hv)
    omega
  · intro hg
    cases h : ce
    · left; simp only [rrStep]; rw [show (cmdReadyOf c s ins || !(combOf c s ins).cCmd.valid) = false from h]; simpa using hg
    · right; rfl

theorem bmReady_pending (c : Cfg) (s : State) (ins : Array BankIn) (hp : Pending c s) (hone : (c.nphases == 1) = false) (b : Nat) :
    bmReadyOf c s ins b = ((combOf c s ins).cmdAccept && s.grantCmd == b) := by
  rw [bmReady_eq, reqAccept_pending c s ins hp hone]; simp

/-- while bank machine `b` offers a command that is not accepted, the bound goes down -/
theorem omega_step (c : Cfg) (s : State) (ins : Array BankIn) (hk : MOk c s) (hp : Pending c s) (hone : (c.nphases == 1) = false)
    (hnref : s.fsm ≠ .refresh) (b : Nat) (hb : b < c.nbm) (hv : (reqJ c s ins b).valid = true) (hnr : bmReadyOf c s ins b = false) :
    (step c s ins).1.fsm = .refresh ∨ omegaB c (step c s ins).1 b + 1 ≤ omegaB c s b := by
  obtain ⟨hM0, hM⟩ := muxWait_step c s ins hk hp (wrStrobe_pending c s ins hp hone).1
  rcases hM with hM | hM
  · left; exact hM
  right
  obtain ⟨hRi, hRany, _⟩ := rasWait_step c s ins hk
  obtain ⟨hD0, hD1, hD2⟩ := dist_step c s ins hk hp b hb hv
  obtain ⟨hcv, hca⟩ := cCmd_pending c s ins hp hk.gc
  have hstr := (wrStrobe_pending c s ins hp hone).2.2
  rw [bmReady_pending c s ins hp hone] at hnr
  rw [cmdAccept_eq] at hnr hstr
  simp only [omegaB]
  generalize hK : rasInc c + 1 = K at *
  have hmul : ∀ D' D : Nat, D' + 1 ≤ D → D' * K + K ≤ D * K := by
    intro D' D h
    have := Nat.mul_le_mul_right K h
    rw [Nat.add_mul, Nat.one_mul] at this; exact this
  by_cases hact : s.fsm = .read ∨ s.fsm = .write
  · -- READ / WRITE
    have hm0 : muxWait c s = 0 := hM0.mpr (by rcases hact with h | h <;> simp [h])
    have hcr : cmdReadyOf c s ins = (!(combOf c s ins).cCmd.activate || rasAllowedOf s) := by
      simp only [cmdReadyOf, hone, rasAllowedOf]; rcases hact with h | h <;> simp [h]
    by_cases hg : s.grantCmd = b
    · have hcv1 : (combOf c s ins).cCmd.valid = true := by rw [hcv, hg]; exact hv
      have hcr0 : cmdReadyOf c s ins = false := by
        cases hh : cmdReadyOf c s ins
        · rfl
        · simp [hcv1, hh, hg] at hnr
      have hce : (cmdReadyOf c s ins || !(combOf c s ins).cCmd.valid) = false := by simp [hcr0, hcv1]
      have hra : rasAllowedOf s = false := by
        rw [hcr] at hcr0; simp at hcr0; exact hcr0.2
      have hs0 : CtlTiming.actStrobeOf c s ins = false := by rw [hstr, hcr0]; simp
      have := (hRi hs0).2 hra
      rw [hD0 hce]
      omega
    · cases hcv1 : (combOf c s ins).cCmd.valid
      · have hce : (cmdReadyOf c s ins || !(combOf c s ins).cCmd.valid) = true := by simp [hcv1]
        have hs0 : CtlTiming.actStrobeOf c s ins = false := by rw [hstr, hcv1]; simp
        have h1 := (hRi hs0).1
        have h2 := hmul _ _ (hD1 hce hg)
        omega
      · cases hcr1 : cmdReadyOf c s ins
        · have hce : (cmdReadyOf c s ins || !(combOf c s ins).cCmd.valid) = false := by simp [hcv1, hcr1]
          have hra : rasAllowedOf s = false := by
            rw [hcr] at hcr1; simp at hcr1; exact hcr1.2
          have hs0 : CtlTiming.actStrobeOf c s ins = false := by rw [hstr, hcr1]; simp
          have := (hRi hs0).2 hra
          rw [hD0 hce]
          omega
        · have hce : (cmdReadyOf c s ins || !(combOf c s ins).cCmd.valid) = true := by simp [hcr1]
          have h2 := hmul _ _ (hD1 hce hg)
          omega
  · -- WTR / RTW: nothing is accepted
    have hm1 : muxWait c s ≠ 0 := fun h0 => by
      rcases hM0.mp h0 with h | h | h
      · exact hact (Or.inl h)
      · exact hact (Or.inr h)
      · exact hnref h
    have hcr0 : cmdReadyOf c s ins = false := by
      simp only [cmdReadyOf]
      cases hf : s.fsm <;> simp_all
    have hs0 : CtlTiming.actStrobeOf c s ins = false := by rw [hstr, hcr0]; simp
    have h1 := (hRi hs0).1
    cases hcv1 : (combOf c s ins).cCmd.valid
    · have hce : (cmdReadyOf c s ins || !(combOf c s ins).cCmd.valid) = true := by simp [hcv1]
      have hg : s.grantCmd ≠ b := fun hg => by rw [hcv, hg, hv] at hcv1; cases hcv1
      have h2 := hmul _ _ (hD1 hce hg)
      omega
    · have hce : (cmdReadyOf c s ins || !(combOf c s ins).cCmd.valid) = false := by simp [hcv1, hcr0]
      rw [hD0 hce]
      omega

theorem K_pos (c : Cfg) : 1 ≤ rasInc c + 1 := by omega

/-- when the bound has run out the command is accepted -/
theorem omega_zero (c : Cfg) (s : State) (ins : Array BankIn) (hk : MOk c s) (hp : Pending c s) (hone : (c.nphases == 1) = false)
    (hnref : s.fsm ≠ .refresh) (b : Nat) (hb : b < c.nbm) (hv : (reqJ c s ins b).valid = true) (h0 : omegaB c s b = 0) :
    bmReadyOf c s ins b = true := by
  obtain ⟨hM0, _⟩ := muxWait_step c s ins hk hp (wrStrobe_pending c s ins hp hone).1
  obtain ⟨_, _, hR0⟩ := rasWait_step c s ins hk
  simp only [omegaB] at h0
  have hm : muxWait c s = 0 := by omega
  have hr : rasWait c s = 0 := by omega
  have hd : C05.dist c.nbm s.grantCmd b = 0 := by
    have : C05.dist c.nbm s.grantCmd b * (rasInc c + 1) = 0 := by omega
    rcases Nat.mul_eq_zero.mp this with h | h
    · exact h
    · omega
  have hg : s.grantCmd = b := C05.dist_zero c.nbm _ _ hk.gc hb hd
  have hact : s.fsm = .read ∨ s.fsm = .write := by
    rcases hM0.mp hm with h | h | h
    · exact Or.inl h
    · exact Or.inr h
    · exact absurd h hnref
  have hra := hR0 hr
  obtain ⟨hcv, _⟩ := cCmd_pending c s ins hp hk.gc
  rw [bmReady_pending c s ins hp hone, cmdAccept_eq, hcv, hg, hv]
  simp only [cmdReadyOf, hone]
  unfold rasAllowedOf at hra
  rcases hact with h | h <;> simp [h, hra]

theorem tfMu_le (t : Nat) (w : List Bool) : tfMu t w ≤ t * w.length := by
  induction w generalizing t with
  | nil => simp [tfMu]
  | cons b rest ih =>
    have := ih (t - 1)
    simp only [tfMu, List.length_cons]
    have h1 : (if b = true then t else 0) ≤ t := by split <;> omega
    have h2 : (t - 1) * rest.length ≤ t * rest.length := Nat.mul_le_mul_right _ (by omega)
    rw [Nat.mul_add, Nat.mul_one]
    omega

theorem tfPot_le (t : Option Nat) (s : TF) (h : TfOk t s) : tfPot t s ≤ tfMax t := by
  cases t with
  | none => simp [tfPot, tfMax]
  | some f =>
    simp only [TfOk] at h
    have := tfMu_le f s.window
    rw [h] at this
    simp only [tfPot, tfMax]
    split <;> omega

theorem omega_le (c : Cfg) (s : State) (hk : MOk c s) (b : Nat) : omegaB c s b ≤ omegaMax c := by
  have h1 := rem_le _ _ hk.twtr
  have h2 := rem_le _ _ hk.trrd
  have h3 := tfPot_le _ _ hk.tfaw
  have h4 : muxWait c s ≤ remMax (some c.twtr) + 1 + c.readLatency := by
    simp only [muxWait]; cases s.fsm <;> simp only [] <;> omega
  have h5 : C05.dist c.nbm s.grantCmd b * (rasInc c + 1) ≤ (c.nbm - 1) * (rasInc c + 1) :=
    Nat.mul_le_mul_right _ (C05.dist_le c.nbm _ _ (by have := hk.gc; omega))
  simp only [omegaB, omegaMax, rasWait]
  omega

end CtlLive
