/-
Helper lemmas (no property statements): an inductive invariant of `Model/Refresher.lean` on its own.
It says which command the refresher's registered outputs show as a function of the two timeline
counters, that the two executers never run at the same time, and - through the ghost `pd`
("precharge-all already accepted in this refresh episode") - that REF / ZQC are only shown after the
precharge-all of the same episode was accepted.  The *phantom* executions that the sequencer performs
right after reset when `postponing > 1` (its counter resets to `postponing − 1`) are shown to be over
before the first refresh request, under `tRP + tRFC + 1 ≤ tREFI`.
Used by Props/C02.lean (composed controller theorem).
-/
import LitedramVerif.Props.C04
namespace RefresherInv
open Hw Refresher

/-! ### timeline counter facts -/
theorem tl_zero (L : Nat) (tr : Bool) (hL : L ≠ 0) : timelineStep L 0 tr = if tr then 1 else 0 := by
  have e : ((0 : Nat) == L) = false := by simpa using (by omega : ¬ (0 = L))
  cases tr <;> simp [timelineStep, e]

theorem tl_mid (L cnt : Nat) (tr : Bool) (h0 : cnt ≠ 0) (hl : cnt < L) : timelineStep L cnt tr = cnt + 1 := by
  have hb := C04.lt_two_pow_bitsFor L
  have hmb : maxBits (L + 1) = bitsFor L := by simp [maxBits]
  have e : (cnt == L) = false := by simpa using (by omega : ¬ (cnt = L))
  have e0 : (cnt != 0) = true := by simpa using h0
  simp only [timelineStep, e, Bool.and_false, Bool.false_eq_true, if_false, e0, if_true, hmb]
  exact Nat.mod_eq_of_lt (by omega)

theorem tl_last (L : Nat) (tr : Bool) (hL : L ≠ 0) : timelineStep L L tr = 0 := C04.timeline_last L tr hL

/-! ### what the command registers show -/
inductive RCmd | none | prea | ref | zqc
deriving DecidableEq, Repr

def regsAre (c : Cfg) (s : State) : RCmd → Prop
  | .none => s.cas = false ∧ s.ras = false ∧ s.we = false
  | .prea => s.cas = false ∧ s.ras = true ∧ s.we = true ∧ s.a = 1024
  | .ref  => s.cas = true ∧ s.ras = true ∧ s.we = false
  | .zqc  => s.cas = false ∧ s.ras = false ∧ s.we = true

def expected (c : Cfg) (s : State) : RCmd :=
  if s.zqCounter = 1 then .prea else if s.zqCounter = c.tRP + 1 then .zqc
  else if s.exCounter = 1 then .prea else if s.exCounter = c.tRP + 1 then .ref else .none

structure WF (c : Cfg) : Prop where
  tRP : 1 ≤ c.tRP
  tRFC : 1 ≤ c.tRFC
  tZQ : ∀ z, c.tZQCS = some z → 1 ≤ z
  abits : 11 ≤ c.abits
  post : 1 ≤ c.postponing
  phantom : c.tRP + c.tRFC + 1 ≤ c.tREFI

/-- cycles the reset-time phantom executions still need -/
def W (c : Cfg) (s : State) : Nat :=
  let M := c.tRP + c.tRFC + 1
  s.seqCount * M + (if s.exCounter ≠ 0 then M - s.exCounter else if s.seqCount ≠ 0 then (if s.exDone then 0 else M) else 0)

/-- cycles until the postponer can raise its first request -/
def Tr (c : Cfg) (s : State) : Nat := s.postCount * c.tREFI + s.timerCount + 1

def Phantom (c : Cfg) (s : State) : Prop :=
  s.reqO = false ∧ W c s ≤ Tr c s ∧ s.postCount < c.postponing ∧ s.timerCount < c.tREFI

def inRef (f : Fsm) : Bool := f == .doRefresh || f == .doZqcs

structure Inv (c : Cfg) (s : State) (pd : Bool) : Prop where
  cntLe : s.exCounter ≤ c.tRP + c.tRFC
  zcntLe : s.zqCounter ≤ c.tRP + c.tZQCS.getD 0
  excl : s.exCounter = 0 ∨ s.zqCounter = 0
  regs : regsAre c s (expected c s)
  exDone0 : s.exDone = true → s.exCounter = 0
  zqDone0 : s.zqDone = true → s.zqCounter = 0
  zqNone : c.tZQCS = none → s.zqCounter = 0 ∧ s.fsm ≠ .doZqcs
  fsmI : match s.fsm with
    | .idle => s.zqCounter = 0 ∧ ((s.exCounter = 0 ∧ s.seqCount = 0) ∨ Phantom c s)
    | .waitBm => s.zqCounter = 0 ∧ s.exCounter = 0 ∧ s.seqCount = 0
    | .doRefresh => s.zqCounter = 0 ∧ (pd = true ∨ s.exCounter = 1)
    | .doZqcs => s.exCounter = 0 ∧ s.seqCount = 0 ∧ pd = true

/-- the refresher's command is accepted (`valid & ready`) and is the precharge-all -/
def preaAcc (c : Cfg) (s : State) (ready : Bool) : Bool :=
  (out c s).valid && ready && s.ras && s.we && !s.cas

def pd' (c : Cfg) (s : State) (ready pd : Bool) : Bool :=
  inRef (step c s ready).fsm && (pd || preaAcc c s ready)

def exStart (s : State) (ready : Bool) : Bool := (s.fsm == .waitBm && ready) || s.seqCount != 0
def zqStart (c : Cfg) (s : State) : Bool := s.fsm == .doRefresh && seqDone s && wantsZqcs c s

def fsmNext (c : Cfg) (s : State) (ready : Bool) : Fsm :=
    match s.fsm with
    | .idle => if c.withRefresh && s.reqO then .waitBm else .idle
    | .waitBm => if ready then .doRefresh else .waitBm
    | .doRefresh => if seqDone s then (if wantsZqcs c s then .doZqcs else .idle) else .doRefresh
    | .doZqcs => if s.zqDone then .idle else .doZqcs

theorem step_fsm (c : Cfg) (s : State) (ready : Bool) : (step c s ready).fsm = fsmNext c s ready := by
  unfold step fsmNext; cases c.tZQCS <;> rfl

theorem step_exCounter (c : Cfg) (s : State) (ready : Bool) :
    (step c s ready).exCounter = timelineStep (c.tRP + c.tRFC) s.exCounter (exStart s ready) := by
  unfold step exStart; cases c.tZQCS <;> rfl

theorem step_exDone (c : Cfg) (s : State) (ready : Bool) :
    (step c s ready).exDone = timelineFires (c.tRP + c.tRFC) s.exCounter (exStart s ready) := by
  unfold step exStart; cases c.tZQCS <;> rfl

theorem step_seqCount (c : Cfg) (s : State) (ready : Bool) :
    (step c s ready).seqCount = if (s.fsm == .waitBm && ready) then c.postponing - 1
                   else if s.exDone then (if s.seqCount != 0 then s.seqCount - 1 else s.seqCount) else s.seqCount := by
  unfold step; cases c.tZQCS <;> rfl

def exEvent (c : Cfg) (s : State) (ready : Bool) : RCmd :=
  if s.exCounter = c.tRP + c.tRFC then .none else if s.exCounter = c.tRP then .ref
  else if exStart s ready = true ∧ s.exCounter = 0 then .prea else .none

theorem step_regs_none (c : Cfg) (hwf : WF c) (s : State) (ready : Bool) (hz : c.tZQCS = none) :
    regsAre c (step c s ready) (exEvent c s ready) ∧ (step c s ready).zqCounter = s.zqCounter ∧
    (step c s ready).zqDone = s.zqDone := by
  have h1024 : 1024 % 2 ^ c.abits = 1024 := Nat.mod_eq_of_lt (Nat.lt_of_lt_of_le (by decide) (Nat.pow_le_pow_right (by decide) hwf.abits))
  have hne : c.tRP ≠ 0 := by have := hwf.tRP; omega
  have hne2 : c.tRP + c.tRFC ≠ 0 := by omega
  have := hwf.tRFC
  refine ⟨?_, by simp [step, hz], by simp [step, hz]⟩
  unfold exEvent
  split
  · next h2 => simp [step, hz, regsAre, C04.fires_pos _ _ _ hne, C04.fires_pos _ _ _ hne2, C04.fires_zero, h2]
  · next h2 =>
    split
    · next h1 => simp [step, hz, regsAre, C04.fires_pos _ _ _ hne, C04.fires_pos _ _ _ hne2, C04.fires_zero, h1]; omega
    · next h1 =>
      split
      · next h0 => 
        have hs : exStart s ready = true := h0.1
        unfold exStart at hs
        have e : ¬ (0 = c.tRP + c.tRFC) := by omega
        have e1 : ¬ (0 = c.tRP) := by omega
        simp [step, hz, regsAre, C04.fires_pos _ _ _ hne, C04.fires_pos _ _ _ hne2, C04.fires_zero, h0.2, hs, e, e1, h1024]
      · next h0 => 
        simp only [exStart] at h0
        simp [step, hz, regsAre, C04.fires_pos _ _ _ hne, C04.fires_pos _ _ _ hne2, C04.fires_zero, h1, h2]
        grind

def zqEvent (c : Cfg) (z : Nat) (s : State) : Option RCmd :=
  if s.zqCounter = c.tRP + z then some .none else if s.zqCounter = c.tRP then some .zqc
  else if zqStart c s = true ∧ s.zqCounter = 0 then some .prea else Option.none

theorem step_zq_some (c : Cfg) (s : State) (ready : Bool) (z : Nat) (hz : c.tZQCS = some z) :
    (step c s ready).zqCounter = timelineStep (c.tRP + z) s.zqCounter (zqStart c s) ∧
    (step c s ready).zqDone = timelineFires (c.tRP + z) s.zqCounter (zqStart c s) := by
  simp [step, hz, zqStart]

theorem step_regs_some (c : Cfg) (hwf : WF c) (s : State) (ready : Bool) (z : Nat) (hz : c.tZQCS = some z) :
    regsAre c (step c s ready) ((zqEvent c z s).getD (exEvent c s ready)) := by
  have h1024 : 1024 % 2 ^ c.abits = 1024 := Nat.mod_eq_of_lt (Nat.lt_of_lt_of_le (by decide) (Nat.pow_le_pow_right (by decide) hwf.abits))
  have hne : c.tRP ≠ 0 := by have := hwf.tRP; omega
  have hne2 : c.tRP + c.tRFC ≠ 0 := by omega
  have hz1 := hwf.tZQ z hz
  have hne3 : c.tRP + z ≠ 0 := by omega
  have := hwf.tRFC
  have e : ¬ (0 = c.tRP + c.tRFC) := by omega
  have e1 : ¬ (0 = c.tRP) := by omega
  have e2 : ¬ (0 = c.tRP + z) := by omega
  unfold zqEvent exEvent
  repeat' split
  all_goals simp only [Option.getD_some, Option.getD_none, regsAre]
  all_goals simp_all [step, C04.fires_pos _ _ _ hne, C04.fires_pos _ _ _ hne2, C04.fires_pos _ _ _ hne3, C04.fires_zero, zqStart, exStart]
  all_goals grind

theorem tl_next (L cnt : Nat) (tr : Bool) (hL : L ≠ 0) (hle : cnt ≤ L) :
    timelineStep L cnt tr = if cnt = L then 0 else if cnt = 0 then (if tr then 1 else 0) else cnt + 1 := by
  split
  · next h => subst h; exact tl_last _ _ hL
  · next h =>
    split
    · next h0 => subst h0; exact tl_zero _ _ hL
    · next h0 => exact tl_mid _ _ _ h0 (by omega)

theorem step_timerCount (c : Cfg) (s : State) (ready : Bool) :
    (step c s ready).timerCount = if s.timerCount ≠ 0 then s.timerCount - 1 else c.tREFI - 1 := C04.step_timer c s ready

theorem step_post (c : Cfg) (s : State) (ready : Bool) (hp : s.postCount < c.postponing) :
    (step c s ready).postCount = (if s.timerCount = 0 then (if s.postCount = 0 then c.postponing - 1 else s.postCount - 1) else s.postCount) ∧
    (step c s ready).reqO = (decide (s.timerCount = 0) && decide (s.postCount = 0)) := by
  have h := C04.step_postponer c s ready
  have hr := C04.postponer_ratio c.postponing s.postCount hp
  rw [Prod.ext_iff] at h
  simp only at h
  rw [h.1, h.2]
  by_cases ht : s.timerCount = 0
  · have e : (s.timerCount == 0) = true := by simpa using ht
    rw [e]
    by_cases h0 : s.postCount = 0
    · rw [hr.2.1 h0]; simp [ht, h0]
    · rw [hr.1 h0]; simp [ht, h0]
  · have e : (s.timerCount == 0) = false := by simpa using ht
    rw [e, hr.2.2]; simp [ht]

theorem phantom_step (c : Cfg) (hwf : WF c) (s : State) (ready : Bool)
    (hcnt : s.exCounter ≤ c.tRP + c.tRFC) (hexd : s.exDone = true → s.exCounter = 0)
    (hfs : s.fsm = .idle) (hp : Phantom c s) :
    ((step c s ready).exCounter = 0 ∧ (step c s ready).seqCount = 0) ∨ Phantom c (step c s ready) := by
  obtain ⟨hreq, hw, hpost, htim⟩ := hp
  have hrp := hwf.tRP; have hrfc := hwf.tRFC; have hph := hwf.phantom; have hP := hwf.post
  have hL : c.tRP + c.tRFC ≠ 0 := by omega
  have hcnt' := step_exCounter c s ready
  rw [tl_next _ _ _ hL hcnt] at hcnt'
  have hexd' := step_exDone c s ready
  rw [C04.fires_pos _ _ _ hL] at hexd'
  have hseq' := step_seqCount c s ready
  have htc' := step_timerCount c s ready
  obtain ⟨hpc', hreq'⟩ := step_post c s ready hpost
  have hes : exStart s ready = (s.seqCount != 0) := by simp [exStart, hfs]
  have hwb : (s.fsm == Fsm.waitBm && ready) = false := by simp [hfs]
  rw [hes] at hcnt'
  rw [hwb] at hseq'
  simp only [Bool.false_eq_true, if_false] at hseq'
  unfold Phantom W Tr at *
  rw [hcnt', hseq', hexd', htc', hpc', hreq']
  generalize c.tRP + c.tRFC = L at *
  generalize c.tREFI = T at *
  generalize s.exCounter = cnt at *
  generalize s.seqCount = sq at *
  generalize s.timerCount = tm at *
  generalize s.postCount = pc at *
  generalize c.postponing = P at *
  generalize s.exDone = ed at *
  clear hes hwb hfs hreq hexd' hseq' hcnt' htc' hreq' hpc'
  simp only [] at hw ⊢
  rcases sq with _ | k <;> rcases tm with _ | tm <;> rcases pc with _ | pc <;> cases ed <;>
    simp only [Nat.succ_mul, Nat.zero_mul, Nat.add_mul, Nat.one_mul] at hw ⊢ <;> grind

theorem inv_step (c : Cfg) (hwf : WF c) (s : State) (pd ready : Bool) (h : Inv c s pd)
    (hr : inRef s.fsm = true → ready = true) : Inv c (step c s ready) (pd' c s ready pd) := by
  obtain ⟨hcnt, hzcnt, hexcl, hregs, hexd, hzqd, hzn, hf⟩ := h
  have hrp := hwf.tRP; have hrfc := hwf.tRFC
  have hL : c.tRP + c.tRFC ≠ 0 := by omega
  have hcnt' := step_exCounter c s ready
  rw [tl_next _ _ _ hL hcnt] at hcnt'
  have hexd' := step_exDone c s ready
  rw [C04.fires_pos _ _ _ hL] at hexd'
  have hseq' := step_seqCount c s ready
  have hfsm' := step_fsm c s ready
  cases hz : c.tZQCS with
  | none =>
    obtain ⟨hregs', hzc', hzd'⟩ := step_regs_none c hwf s ready hz
    have hz0 := (hzn hz).1
    have hznz := (hzn hz).2
    have hexp : expected c (step c s ready) = exEvent c s ready := by
      unfold expected exEvent
      rw [hzc', hz0, hcnt']
      grind
    refine ⟨?_, ?_, ?_, ?_, ?_, ?_, ?_, ?_⟩
    · grind
    · grind
    · grind
    · rw [hexp]; exact hregs'
    · grind
    · grind
    · grind [fsmNext, wantsZqcs, seqDone, exStart]
    · rw [hfsm']
      cases hfs : s.fsm <;> simp only [hfs, fsmNext] at hf ⊢
      · -- idle
        have hes : exStart s ready = (s.seqCount != 0) := by simp [exStart, hfs]
        have hwb : (s.fsm == Fsm.waitBm && ready) = false := by simp [hfs]
        rcases hf.2 with hq | hph
        · have h1 : (step c s ready).exCounter = 0 ∧ (step c s ready).seqCount = 0 := by grind
          split <;> grind
        · have hreq : s.reqO = false := hph.1
          simp only [hreq, Bool.and_false, Bool.false_eq_true, if_false]
          exact ⟨by rw [hzc', hz0], phantom_step c hwf s ready hcnt hexd hfs hph⟩
      · -- waitBm
        cases ready <;> simp [exStart, hfs, hzc', hz0] <;> grind [exStart]
      · -- doRefresh
        have hrd : ready = true := hr (by simp [inRef, hfs])
        subst hrd
        have hwz : wantsZqcs c s = false := by simp [wantsZqcs, hz]
        have hpd : pd' c s true pd = true ∨ ¬ (pd = true ∨ s.exCounter = 1) ∨ seqDone s = true := by
          by_cases hsd : seqDone s = true
          · exact Or.inr (Or.inr hsd)
          · rcases hf.2 with hp | h1
            · left; simp [pd', hfsm', fsmNext, hfs, hsd, inRef, hp]
            · left
              have he : expected c s = .prea := by simp [expected, hz0, h1]
              rw [he] at hregs
              simp [regsAre] at hregs
              simp [pd', hfsm', fsmNext, hfs, hsd, inRef, preaAcc, out, hregs]
        by_cases hsd : seqDone s = true
        · simp only [hsd, hwz, if_true, Bool.false_eq_true, if_false]
          simp only [seqDone, Bool.and_eq_true, beq_iff_eq] at hsd
          refine ⟨by rw [hzc', hz0], Or.inl ?_⟩
          grind [exStart]
        · simp only [hsd, if_false]
          refine ⟨by rw [hzc', hz0], ?_⟩
          grind
      · exact absurd hfs hznz
  | some z =>
    have hregs' := step_regs_some c hwf s ready z hz
    obtain ⟨hzc', hzd'⟩ := step_zq_some c s ready z hz
    have hz1 := hwf.tZQ z hz
    have hLz : c.tRP + z ≠ 0 := by omega
    rw [hz] at hzcnt
    simp only [Option.getD_some] at hzcnt ⊢
    rw [tl_next _ _ _ hLz hzcnt] at hzc'
    rw [C04.fires_pos _ _ _ hLz] at hzd'
    have hzs : zqStart c s = true → s.fsm = .doRefresh ∧ s.exDone = true ∧ s.seqCount = 0 := by
      simp only [zqStart, seqDone, Bool.and_eq_true, beq_iff_eq]; grind
    have hes : exStart s ready = true → (s.fsm = .waitBm ∧ ready = true) ∨ s.seqCount ≠ 0 := by
      simp only [exStart, Bool.or_eq_true, Bool.and_eq_true, beq_iff_eq, bne_iff_ne]; grind
    have hfacts : (s.fsm = .idle ∨ s.fsm = .waitBm ∨ s.fsm = .doRefresh → s.zqCounter = 0) ∧
                  (s.fsm = .doZqcs → s.exCounter = 0 ∧ s.seqCount = 0) ∧ (s.fsm = .waitBm → s.exCounter = 0 ∧ s.seqCount = 0) := by
      cases hfs : s.fsm <;> simp only [hfs] at hf <;> grind
    have hexcl' : (step c s ready).exCounter = 0 ∨ (step c s ready).zqCounter = 0 := by
      cases hfs : s.fsm <;> grind
    have hexp : expected c (step c s ready) = (zqEvent c z s).getD (exEvent c s ready) := by
      unfold expected exEvent zqEvent
      rw [hzc', hcnt']
      cases hfs : s.fsm <;> grind
    refine ⟨?_, ?_, ?_, ?_, ?_, ?_, ?_, ?_⟩
    · grind
    · grind
    · exact hexcl'
    · rw [hexp]; exact hregs'
    · grind
    · grind
    · intro h; rw [hz] at h; cases h
    · rw [hfsm']
      cases hfs : s.fsm <;> simp only [hfs, fsmNext] at hf ⊢
      · -- idle
        have hzq0 : (step c s ready).zqCounter = 0 := by grind
        have hes : exStart s ready = (s.seqCount != 0) := by simp [exStart, hfs]
        have hwb : (s.fsm == Fsm.waitBm && ready) = false := by simp [hfs]
        rcases hf.2 with hq | hph
        · have h1 : (step c s ready).exCounter = 0 ∧ (step c s ready).seqCount = 0 := by grind
          split <;> grind
        · have hreq : s.reqO = false := hph.1
          simp only [hreq, Bool.and_false, Bool.false_eq_true, if_false]
          exact ⟨hzq0, phantom_step c hwf s ready hcnt hexd hfs hph⟩
      · -- waitBm
        have hzq0 : (step c s ready).zqCounter = 0 := by grind
        cases ready <;> simp [exStart, hfs, hzq0] <;> grind [exStart]
      · -- doRefresh
        have hrd : ready = true := hr (by simp [inRef, hfs])
        subst hrd
        have hz0 : s.zqCounter = 0 := hf.1
        have hpd : pd' c s true pd = true ∨ seqDone s = true := by
          by_cases hsd : seqDone s = true
          · exact Or.inr hsd
          · rcases hf.2 with hp | h1
            · left; simp [pd', hfsm', fsmNext, hfs, hsd, inRef, hp]
            · left
              have he : expected c s = .prea := by simp [expected, hz0, h1]
              rw [he] at hregs
              simp [regsAre] at hregs
              simp [pd', hfsm', fsmNext, hfs, hsd, inRef, preaAcc, out, hregs]
        have hzsd : zqStart c s = (seqDone s && wantsZqcs c s) := by simp [zqStart, hfs]
        have hesd : exStart s true = (s.seqCount != 0) := by simp [exStart, hfs]
        have hwb : (s.fsm == Fsm.waitBm && true) = false := by simp [hfs]
        by_cases hsd : seqDone s = true
        · have hsd2 := hsd
          simp only [seqDone, Bool.and_eq_true, beq_iff_eq] at hsd2
          have hc0 : s.exCounter = 0 := hexd hsd2.1
          have hpdt : pd = true := by rcases hf.2 with hp | h1; exact hp; omega
          by_cases hw : wantsZqcs c s = true
          · simp only [hsd, hw, if_true]
            refine ⟨by grind, by grind, ?_⟩
            simp [pd', hfsm', fsmNext, hfs, hsd, hw, inRef, hpdt]
          · simp only [hsd, hw, if_true, if_false, Bool.false_eq_true]
            refine ⟨by grind, Or.inl (by grind)⟩
        · simp only [hsd, if_false, Bool.false_eq_true]
          refine ⟨by grind, by grind⟩
      · -- doZqcs
        have hesd : exStart s ready = false := by simp [exStart, hfs, hf.2.1]
        have hzsd : zqStart c s = false := by simp [zqStart, hfs]
        have hwb : (s.fsm == Fsm.waitBm && ready) = false := by simp [hfs]
        by_cases hzd : s.zqDone = true
        · simp only [hzd, if_true]
          refine ⟨by grind, Or.inl (by grind)⟩
        · simp only [hzd, if_false, Bool.false_eq_true]
          refine ⟨by grind, by grind, ?_⟩
          simp [pd', hfsm', fsmNext, hfs, hzd, inRef, hf.2.2]

theorem inv_init (c : Cfg) (hwf : WF c) : Inv c (init c) false := by
  have hrp := hwf.tRP; have hrfc := hwf.tRFC; have hph := hwf.phantom; have hP := hwf.post
  refine ⟨by simp [init], by simp [init], by simp [init], ?_, by simp [init], by simp [init], by simp [init], ?_⟩
  · have : expected c (init c) = .none := by simp [expected, init]
    rw [this]; simp [regsAre, init]
  · show (init c).zqCounter = 0 ∧ (((init c).exCounter = 0 ∧ (init c).seqCount = 0) ∨ Phantom c (init c))
    simp only [init, Phantom]
    refine ⟨trivial, ?_⟩
    by_cases hp1 : c.postponing = 1
    · left; simp [hp1]
    · right
      refine ⟨trivial, ?_, by omega, by omega⟩
      simp only [W, Tr]
      obtain ⟨k, hk⟩ : ∃ k, c.postponing = k + 2 := ⟨c.postponing - 2, by omega⟩
      simp [hk]
      have h1 : (k + 1) * (c.tRP + c.tRFC + 1) ≤ (k + 1) * c.tREFI := Nat.mul_le_mul_left _ hph
      omega

/-- what an accepted refresher command can be: nothing, the precharge-all, or - only after the precharge-all of this
episode was accepted - auto-refresh / ZQ calibration -/
theorem acc_cases (c : Cfg) (s : State) (pd : Bool) (h : Inv c s pd) (hv : (out c s).valid = true) :
    regsAre c s .none ∨ regsAre c s .prea ∨ (pd = true ∧ (regsAre c s .ref ∨ regsAre c s .zqc)) := by
  obtain ⟨hcnt, hzcnt, hexcl, hregs, hexd, hzqd, hzn, hf⟩ := h
  cases hfs : s.fsm <;> simp only [hfs] at hf
  · simp [out, hfs] at hv
  · have : expected c s = .none := by
      simp only [expected, hf.1, hf.2.1]
      simp
    rw [this] at hregs; exact Or.inl hregs
  · rcases hf.2 with hp | h1
    · generalize expected c s = e at hregs
      cases e
      · exact Or.inl hregs
      · exact Or.inr (Or.inl hregs)
      · exact Or.inr (Or.inr ⟨hp, Or.inl hregs⟩)
      · exact Or.inr (Or.inr ⟨hp, Or.inr hregs⟩)
    · have : expected c s = .prea := by simp [expected, hf.1, h1]
      rw [this] at hregs; exact Or.inr (Or.inl hregs)
  · generalize expected c s = e at hregs
    cases e
    · exact Or.inl hregs
    · exact Or.inr (Or.inl hregs)
    · exact Or.inr (Or.inr ⟨hf.2.2, Or.inl hregs⟩)
    · exact Or.inr (Or.inr ⟨hf.2.2, Or.inr hregs⟩)

end RefresherInv
