/-
Helper lemmas (no property statements): the bank machine's request path - `cmd_buffer_lookahead` (SyncFIFO with
storage array and produce / consume pointers) followed by `cmd_buffer` (one-entry Buffer) - refines a list queue.
Used by Props/C01.lean (`bank_queue_fifo`) and gives the "request being served" of C02 its meaning: it is the
oldest accepted request of that bank that has not been served yet.
-/
import LitedramVerif.Model.BankMachine
namespace BmQueue
open BankMachine

/-- storage index of the k-th oldest entry -/
def idx (depth consume k : Nat) : Nat := if consume + k < depth then consume + k else consume + k - depth

/-- the FIFO's contents, oldest first -/
def fifoList (s : State) (depth : Nat) : List Entry := (List.range s.level).map fun k => s.mem[idx depth s.consume k]!

/-- the bank machine's request queue: the `cmd_buffer` entry (being served) followed by the look-ahead FIFO -/
def queue (c : Cfg) (s : State) : List Entry := (if s.bufValid then [s.buf] else []) ++ fifoList s c.depth

structure FInv (c : Cfg) (s : State) : Prop where
  size : s.mem.size = c.depth
  cons : s.consume < c.depth
  lvl : s.level ≤ c.depth
  prod : s.produce = idx c.depth s.consume s.level ∨ (s.level = c.depth ∧ s.produce = s.consume)

theorem finv_init (c : Cfg) (hd : 1 ≤ c.depth) : FInv c (State.init c) := by
  refine ⟨by simp [State.init], by simp [State.init]; omega, by simp [State.init], Or.inl ?_⟩
  simp [State.init, idx]

/-- a CAS is accepted this cycle -/
def served (c : Cfg) (s : State) (i : In) : Bool := (step c s i).2.wdataReady || (step c s i).2.rdataValid
/-- a request is accepted this cycle -/
def taken (c : Cfg) (s : State) (i : In) : Bool := i.valid && (step c s i).2.reqReady

theorem served_head (c : Cfg) (s : State) (i : In) (h : served c s i = true) :
    s.bufValid = true ∧ ((step c s i).2.wdataReady = s.buf.we) := by
  simp only [served, step, Bool.or_eq_true, Bool.and_eq_true] at h ⊢
  cases hw : s.buf.we <;> simp_all

theorem getElem!_set!_ne (m : Array Entry) (p k : Nat) (e : Entry) (h : k ≠ p) : (m.set! p e)[k]! = m[k]! := by
  simp [Array.set!_eq_setIfInBounds, Array.getElem!_eq_getD, Array.getD_eq_getD_getElem?, h.symm]

theorem getElem!_set!_eq (m : Array Entry) (p : Nat) (e : Entry) (h : p < m.size) : (m.set! p e)[p]! = e := by
  simp [Array.set!_eq_setIfInBounds, h]

def inc (depth p : Nat) : Nat := if p + 1 == depth then 0 else p + 1

theorem idx_inc (depth consume n : Nat) (hc : consume < depth) (hn : n + 1 ≤ depth) :
    idx depth (inc depth consume) n = idx depth consume (n + 1) := by
  simp only [idx, inc, beq_iff_eq]; split <;> split <;> split <;> omega

theorem idx_lt (depth consume n : Nat) (hc : consume < depth) (hn : n < depth) : idx depth consume n < depth := by
  simp only [idx]; split <;> omega

theorem idx_inj (depth consume a b : Nat) (hc : consume < depth) (ha : a < depth) (hb : b < depth)
    (h : idx depth consume a = idx depth consume b) : a = b := by
  simp only [idx] at h; split at h <;> split at h <;> omega

def contents (depth : Nat) (mem : Array Entry) (consume level : Nat) : List Entry :=
  (List.range level).map fun k => mem[idx depth consume k]!

theorem contents_pop (depth : Nat) (mem : Array Entry) (consume level : Nat) (hc : consume < depth) (hl : level ≤ depth) (h0 : 0 < level) :
    contents depth mem (inc depth consume) (level - 1) = (contents depth mem consume level).tail := by
  apply List.ext_getElem
  · simp [contents]
  · intro n h1 h2
    simp only [contents, List.length_map, List.length_range] at h1
    simp only [contents, List.getElem_tail, List.getElem_map, List.getElem_range]
    rw [idx_inc depth consume n hc (by omega)]

theorem contents_push (depth : Nat) (mem : Array Entry) (consume level : Nat) (e : Entry) (hsz : mem.size = depth)
    (hc : consume < depth) (hl : level < depth) :
    contents depth (mem.set! (idx depth consume level) e) consume (level + 1) = contents depth mem consume level ++ [e] := by
  apply List.ext_getElem
  · simp [contents]
  · intro n h1 h2
    simp only [contents, List.length_map, List.length_range] at h1
    simp only [contents, List.getElem_map, List.getElem_range]
    by_cases hn : n < level
    · rw [List.getElem_append_left (by simpa using hn)]
      simp only [List.getElem_map, List.getElem_range]
      apply getElem!_set!_ne
      intro he
      have := idx_inj depth consume n level hc (by omega) hl he
      omega
    · have hn2 : n = level := by omega
      subst hn2
      rw [List.getElem_append_right (by simp)]
      simp only [List.length_map, List.length_range, Nat.sub_self, List.getElem_cons_zero]
      apply getElem!_set!_eq
      rw [hsz]; exact idx_lt depth consume n hc hl

theorem contents_set_other (depth : Nat) (mem : Array Entry) (consume level p : Nat) (e : Entry) (hc : consume < depth)
    (hp : ∀ k, k < level → idx depth consume k ≠ p) :
    contents depth (mem.set! p e) consume level = contents depth mem consume level := by
  apply List.ext_getElem
  · simp [contents]
  · intro n h1 h2
    simp only [contents, List.length_map, List.length_range] at h1
    simp only [contents, List.getElem_map, List.getElem_range]
    exact getElem!_set!_ne _ _ _ _ (hp n h1)

theorem fifoList_eq (s : State) (depth : Nat) : fifoList s depth = contents depth s.mem s.consume s.level := rfl

theorem contents_head (depth : Nat) (mem : Array Entry) (consume level : Nat) (hc : consume < depth) (h0 : 0 < level) :
    contents depth mem consume level = mem[consume]! :: (contents depth mem consume level).tail := by
  obtain ⟨l, rfl⟩ : ∃ l, level = l + 1 := ⟨level - 1, by omega⟩
  simp only [contents, List.range_succ_eq_map, List.map_cons, List.tail_cons]
  congr 1
  simp [idx, hc]

/-- **The bank machine's request queue is a FIFO**: after one clock edge the queue (entry being served ++ look-ahead
FIFO) is the old queue, without its head if a RD/WR was accepted this cycle, with the request accepted from the
crossbar this cycle appended - whatever the order and combination of the two events. -/
theorem queue_step (c : Cfg) (hd2 : 2 ≤ c.depth) (s : State) (i : In) (h : FInv c s) :
    FInv c (step c s i).1 ∧
    queue c (step c s i).1 = (if served c s i then (queue c s).tail else queue c s) ++ (if taken c s i then [⟨i.we, i.addr⟩] else []) := by
  obtain ⟨hsz, hc, hl, hp⟩ := h
  have hsv : served c s i = true → s.bufValid = true := fun hh => (served_head c s i hh).1
  generalize hsvd : served c s i = sv at *
  generalize htk : taken c s i = tk at *
  have hsvd' : ((step c s i).2.wdataReady || (step c s i).2.rdataValid) = sv := hsvd
  have e0 : (c.depth == 0) = false := by simpa using (by omega : ¬ c.depth = 0)
  have e1 : (c.depth == 1) = false := by simpa using (by omega : ¬ c.depth = 1)
  have htk' : (i.valid && (s.level != c.depth)) = tk := by
    rw [← htk]; simp only [taken, step, e0, e1, Bool.false_eq_true, if_false]
  have hpush : tk = true → s.level < c.depth := by
    intro ht; rw [← htk'] at ht; simp at ht; omega
  have hprod : tk = true → s.produce = idx c.depth s.consume s.level := by
    intro ht; rcases hp with h1 | h1
    · exact h1
    · have := hpush ht; omega
  -- name the next-state components
  have hmem : (step c s i).1.mem = if tk then s.mem.set! s.produce ⟨i.we, i.addr⟩ else s.mem := by
    rw [← htk']; simp only [step, e0, e1, Bool.false_eq_true, if_false]
  have hsink : (!s.bufValid || sv) = (!s.bufValid || ((step c s i).2.wdataReady || (step c s i).2.rdataValid)) := by rw [hsvd']
  let pop := (s.level != 0) && (!s.bufValid || sv)
  have hcons : (step c s i).1.consume = if pop then inc c.depth s.consume else s.consume := by
    simp only [pop, hsink]; simp only [step, e0, e1, Bool.false_eq_true, if_false, Bool.or_self]; rfl
  have hlev : (step c s i).1.level = if tk then (if !pop then s.level + 1 else s.level) else if pop then s.level - 1 else s.level := by
    simp only [pop, hsink, ← htk']; simp only [step, e0, e1, Bool.false_eq_true, if_false]
  have hprodn : (step c s i).1.produce = if tk then inc c.depth s.produce else s.produce := by
    rw [← htk']; simp only [step, e0, e1, Bool.false_eq_true, if_false, Bool.or_self]; rfl
  have hbv : (step c s i).1.bufValid = if (!s.bufValid || sv) then (s.level != 0) else s.bufValid := by
    rw [hsink]; simp only [step, e0, e1, Bool.false_eq_true, if_false]
  have hbuf : (step c s i).1.buf = if (!s.bufValid || sv) then s.mem[s.consume]! else s.buf := by
    rw [hsink]; simp only [step, e0, e1, Bool.false_eq_true, if_false]
  have hpop : pop = true → 0 < s.level := by
    intro hh; simp only [pop, Bool.and_eq_true, bne_iff_ne] at hh; omega
  have hinc : ∀ p, p < c.depth → inc c.depth p < c.depth := by
    intro p hp; simp only [inc, beq_iff_eq]; split <;> omega
  constructor
  · refine ⟨?_, ?_, ?_, ?_⟩
    · rw [hmem]; split <;> simp [hsz]
    · rw [hcons]; split
      · exact hinc _ hc
      · exact hc
    · rw [hlev]; cases tk <;> cases hpo : pop <;> simp <;> first | omega | (have := hpush rfl; omega) | (have := hpop hpo; omega)
    · rw [hprodn, hcons, hlev]
      cases htk2 : tk <;> cases hpo : pop <;> simp only [Bool.false_eq_true, if_false, if_true, Bool.not_true, Bool.not_false]
      · exact hp
      · have h0 := hpop hpo
        rcases hp with h1 | ⟨h1, h2⟩
        · left; rw [h1]; simp only [idx, inc, beq_iff_eq]; split <;> split <;> split <;> omega
        · left; rw [h2]; simp only [idx, inc, beq_iff_eq]; split <;> split <;> omega
      · have hlt := hpush htk2
        have hpr := hprod htk2
        rw [hpr]
        by_cases hfull : s.level + 1 = c.depth
        · right; refine ⟨hfull, ?_⟩
          simp only [idx, inc, beq_iff_eq]; split <;> split <;> omega
        · left; simp only [idx, inc, beq_iff_eq]; split <;> split <;> split <;> omega
      · have hlt := hpush htk2
        have hpr := hprod htk2
        have h0 := hpop hpo
        left; rw [hpr]
        simp only [idx, inc, beq_iff_eq]; split <;> split <;> split <;> split <;> omega
  · simp only [queue, fifoList_eq]
    rw [hbv, hbuf, hmem, hcons, hlev]
    -- contents after the edge
    have hcont : contents c.depth (if tk then s.mem.set! s.produce ⟨i.we, i.addr⟩ else s.mem)
        (if pop then inc c.depth s.consume else s.consume)
        (if tk then (if !pop then s.level + 1 else s.level) else if pop then s.level - 1 else s.level) =
        (if pop then (contents c.depth s.mem s.consume s.level).tail else contents c.depth s.mem s.consume s.level) ++
          (if tk then [⟨i.we, i.addr⟩] else []) := by
      cases htk2 : tk <;> cases hpo : pop <;> simp only [Bool.false_eq_true, if_false, if_true, Bool.not_true, Bool.not_false, List.append_nil]
      · exact contents_pop c.depth s.mem s.consume s.level hc hl (hpop hpo)
      · rw [hprod htk2]; exact contents_push c.depth s.mem s.consume s.level _ hsz hc (hpush htk2)
      · have h0 := hpop hpo
        have hlt := hpush htk2
        have e1 : idx c.depth s.consume s.level = idx c.depth (inc c.depth s.consume) (s.level - 1) := by
          rw [idx_inc c.depth s.consume (s.level - 1) hc (by omega)]; congr 1; omega
        have hcp := contents_push c.depth s.mem (inc c.depth s.consume) (s.level - 1) ⟨i.we, i.addr⟩ hsz (hinc _ hc) (by omega)
        have e2 : s.level - 1 + 1 = s.level := by omega
        rw [e2] at hcp
        rw [hprod htk2, e1, hcp, contents_pop c.depth s.mem s.consume s.level hc hl h0]
    rw [hcont]
    by_cases hl0 : s.level = 0
    · -- look-ahead FIFO empty
      have hpf : pop = false := by simp [pop, hl0]
      have hce : contents c.depth s.mem s.consume s.level = [] := by simp [contents, hl0]
      cases hbvv : s.bufValid <;> cases hsv2 : sv <;> simp [hpf, hl0, hce]
      exact absurd (hsv hsv2) (by simp [hbvv])
    · have hlpos : 0 < s.level := by omega
      have hhead := contents_head c.depth s.mem s.consume s.level hc hlpos
      have hne : (s.level != 0) = true := by simpa using hl0
      cases hbvv : s.bufValid <;> cases hsv2 : sv
      · have hpt : pop = true := by simp [pop, hne, hbvv]
        simp only [hpt, hbvv, hne, Bool.not_false, Bool.true_or, if_true, Bool.false_eq_true, if_false, List.nil_append]
        rw [← List.append_assoc]; congr 1
        conv => rhs; rw [hhead]
        rfl
      · exact absurd (hsv hsv2) (by simp [hbvv])
      · have hpf : pop = false := by simp [pop, hbvv, hsv2]
        simp [hpf, hbvv, hsv2]
      · have hpt : pop = true := by simp [pop, hne, hsv2]
        simp only [hpt, hbvv, hne, hsv2, Bool.not_true, Bool.false_or, if_true, List.cons_append, List.nil_append, List.tail_cons]
        conv => rhs; rw [hhead]
        rfl

/-- run a bank machine, logging the requests it accepts and the requests its RD/WR commands serve -/
def runLog (c : Cfg) : State → List Entry → List Entry → List In → State × List Entry × List Entry
  | s, acc, srv, [] => (s, acc, srv)
  | s, acc, srv, i :: rest =>
    runLog c (step c s i).1 (if taken c s i then acc ++ [⟨i.we, i.addr⟩] else acc) (if served c s i then srv ++ [s.buf] else srv) rest

theorem runLog_inv (c : Cfg) (hd2 : 2 ≤ c.depth) (ins : List In) :
    ∀ s acc srv, FInv c s → acc = srv ++ queue c s →
      FInv c (runLog c s acc srv ins).1 ∧
      (runLog c s acc srv ins).2.1 = (runLog c s acc srv ins).2.2 ++ queue c (runLog c s acc srv ins).1 := by
  induction ins with
  | nil => intro s acc srv h1 h2; exact ⟨h1, h2⟩
  | cons i rest ih =>
    intro s acc srv h1 h2
    obtain ⟨h3, h4⟩ := queue_step c hd2 s i h1
    apply ih _ _ _ h3
    rw [h4, h2]
    cases hsv : served c s i
    · cases htk : taken c s i <;> simp
    · have hbv := (served_head c s i hsv).1
      have hq : queue c s = s.buf :: (queue c s).tail := by simp [queue, hbv]
      cases htk : taken c s i
      · simp only [Bool.false_eq_true, if_false, if_true, List.append_nil]
        conv => lhs; rw [hq]
        simp
      · simp only [if_true]
        conv => lhs; rw [hq]
        simp

end BmQueue
