/- Closed-term evaluations of the generated truth tables through the model's rule resolution
   (helper lemmas; each is re-decided by the kernel against the regenerated tables on every build). -/
import LitedramVerif.Model.LpddrCmd
namespace LpddrCmd

theorem s4_ACTIVATE_1 : small4 "ACTIVATE-1" = ⟨true, [.const true, .const false, .addr 12, .addr 13, .addr 14, .addr 15], [.bank 0, .bank 1, .bank 2, .addr 16, .addr 10, .addr 11]⟩ := by decide
theorem s4_ACTIVATE_2 : small4 "ACTIVATE-2" = ⟨true, [.const true, .const true, .addr 6, .addr 7, .addr 8, .addr 9], [.addr 0, .addr 1, .addr 2, .addr 3, .addr 4, .addr 5]⟩ := by decide
theorem s4_READ_1 : small4 "READ-1" = ⟨true, [.const false, .const true, .const false, .const false, .const false, .const false], [.bank 0, .bank 1, .bank 2, .const false, .addr 9, .addr 10]⟩ := by decide
theorem s4_CAS_2 : small4 "CAS-2" = ⟨true, [.const false, .const true, .const false, .const false, .const true, .addr 8], [.addr 2, .addr 3, .addr 4, .addr 5, .addr 6, .addr 7]⟩ := by decide
theorem s4_WRITE_1 : small4 "WRITE-1" = ⟨true, [.const false, .const false, .const true, .const false, .const false, .const false], [.bank 0, .bank 1, .bank 2, .const false, .addr 9, .addr 10]⟩ := by decide
theorem s4_MASK_WRITE_1 : small4 "MASK WRITE-1" = ⟨true, [.const false, .const false, .const true, .const true, .const false, .const false], [.bank 0, .bank 1, .bank 2, .const false, .addr 9, .addr 10]⟩ := by decide
theorem s4_DESELECT : small4 "DESELECT" = ⟨false, [.const false, .const false, .const false, .const false, .const false, .const false], [.const false, .const false, .const false, .const false, .const false, .const false]⟩ := by decide
theorem s4_PRECHARGE : small4 "PRECHARGE" = ⟨true, [.const false, .const false, .const false, .const false, .const true, .addr 10], [.bank 0, .bank 1, .bank 2, .const false, .const false, .const false]⟩ := by decide
theorem s4_REFRESH : small4 "REFRESH" = ⟨true, [.const false, .const false, .const false, .const true, .const false, .addr 10], [.bank 0, .bank 1, .bank 2, .const false, .const false, .const false]⟩ := by decide
theorem s4_MPC : small4 "MPC" = ⟨true, [.const false, .const false, .const false, .const false, .const false, .addr 6], [.addr 0, .addr 1, .addr 2, .addr 3, .addr 4, .addr 5]⟩ := by decide
theorem s4_MRR_1 : small4 "MRR-1" = ⟨true, [.const false, .const true, .const true, .const true, .const false, .const false], [.addr 0, .addr 1, .addr 2, .addr 3, .addr 4, .addr 5]⟩ := by decide
theorem s4_MRW_1 : small4 "MRW-1" = ⟨true, [.const false, .const true, .const true, .const false, .const false, .addr 7], [.bank 0, .bank 1, .bank 2, .bank 3, .bank 4, .bank 5]⟩ := by decide
theorem s4_MRW_2 : small4 "MRW-2" = ⟨true, [.const false, .const true, .const true, .const false, .const true, .addr 6], [.addr 0, .addr 1, .addr 2, .addr 3, .addr 4, .addr 5]⟩ := by decide

theorem s5_DES : small5 "DES" = ⟨false, [.const false, .const false, .const false, .const false, .const false, .const false, .const false], [.const false, .const false, .const false, .const false, .const false, .const false, .const false]⟩ := by decide
theorem s5_NOP : small5 "NOP" = ⟨true, [.const false, .const false, .const false, .const false, .const false, .const false, .const false], [.const false, .const false, .const false, .const false, .const false, .const false, .const false]⟩ := by decide
theorem s5_ACT_1 : small5 "ACT-1" = ⟨true, [.const true, .const true, .const true, .addr 14, .addr 15, .addr 16, .addr 17], [.bank 0, .bank 1, .bank 2, .bank 3, .addr 11, .addr 12, .addr 13]⟩ := by decide
theorem s5_ACT_2 : small5 "ACT-2" = ⟨true, [.const true, .const true, .const false, .addr 7, .addr 8, .addr 9, .addr 10], [.addr 0, .addr 1, .addr 2, .addr 3, .addr 4, .addr 5, .addr 6]⟩ := by decide
theorem s5_PRE : small5 "PRE" = ⟨true, [.const false, .const false, .const false, .const true, .const true, .const true, .const true], [.bank 0, .bank 1, .bank 2, .bank 3, .const false, .const false, .addr 10]⟩ := by decide
theorem s5_REF : small5 "REF" = ⟨true, [.const false, .const false, .const false, .const true, .const true, .const true, .const false], [.bank 0, .bank 1, .bank 2, .const false, .const false, .const false, .addr 10]⟩ := by decide
theorem s5_MWR : small5 "MWR" = ⟨true, [.const false, .const true, .const false, .addr 4, .addr 7, .addr 8, .addr 9], [.bank 0, .bank 1, .bank 2, .bank 3, .addr 5, .addr 6, .addr 10]⟩ := by decide
theorem s5_WR16 : small5 "WR16" = ⟨true, [.const false, .const true, .const true, .addr 4, .addr 7, .addr 8, .addr 9], [.bank 0, .bank 1, .bank 2, .bank 3, .addr 5, .addr 6, .addr 10]⟩ := by decide
theorem s5_RD16 : small5 "RD16" = ⟨true, [.const true, .const false, .const false, .addr 4, .addr 7, .addr 8, .addr 9], [.bank 0, .bank 1, .bank 2, .bank 3, .addr 5, .addr 6, .addr 10]⟩ := by decide
theorem s5_CAS : small5 "CAS" = ⟨true, [.const false, .const false, .const true, .const true, .wsWr, .wsRd, .wsFs], [.const false, .const false, .const false, .const false, .const false, .const false, .const false]⟩ := by decide
theorem s5_MPC : small5 "MPC" = ⟨true, [.const false, .const false, .const false, .const false, .const true, .const true, .mpcOp 7], [.mpcOp 0, .mpcOp 1, .mpcOp 2, .mpcOp 3, .mpcOp 4, .mpcOp 5, .mpcOp 6]⟩ := by decide
theorem s5_MRW_1 : small5 "MRW-1" = ⟨true, [.const false, .const false, .const false, .const true, .const true, .const false, .const true], [.bank 0, .bank 1, .bank 2, .bank 3, .bank 4, .bank 5, .bank 6]⟩ := by decide
theorem s5_MRW_2 : small5 "MRW-2" = ⟨true, [.const false, .const false, .const false, .const true, .const false, .const false, .addr 7], [.addr 0, .addr 1, .addr 2, .addr 3, .addr 4, .addr 5, .addr 6]⟩ := by decide
theorem s5_MRR : small5 "MRR" = ⟨true, [.const false, .const false, .const false, .const true, .const true, .const false, .const false], [.addr 0, .addr 1, .addr 2, .addr 3, .addr 4, .addr 5, .addr 6]⟩ := by decide

end LpddrCmd
