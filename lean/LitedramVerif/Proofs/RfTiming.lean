/-
Helper lemmas (no property statements): the refresher's timeline against the ages of `Spec/TimingMon.lean`.
 * `evR_cases`   which command the refresher issues is determined by its FSM state and the two timeline counters
 * `rtinv_step`  REF / ZQC are only issued tRP after the precharge-all, tRFC after the previous REF and tZQCS after
                 the previous calibration; lower bounds on the ages as functions of the counters are re-established
                 (so that, when the refresh episode ends, tRP / tRFC / tZQCS have elapsed)
Used by Proofs/CtlTiming.lean.
-/
import LitedramVerif.Proofs.RefresherInv
import LitedramVerif.Proofs.BmTiming
namespace RfTiming
open Hw Refresher RefresherInv TimingMon BmTiming

/-- the refresher's accepted command as a monitor event (`ready` = the multiplexer is in REFRESH) -/
def evR (c : Cfg) (s : State) (ready : Bool) : Option Ev :=
  if (out c s).valid && ready then
    (if s.ras && s.we && !s.cas then some .prea else if s.cas && s.ras && !s.we then some .ref
     else if s.we && !s.ras && !s.cas then some .zqc else none)
  else none

def upd (a : Age) (hit : Bool) : Age := if hit then some 1 else tick a

/-- refresher timeline against the monitor's ages -/
structure RTInv (c : Cfg) (s : State) (prea ref zq : Age) : Prop where
  r1 : s.fsm = .doRefresh → 2 ≤ s.exCounter → ok prea (s.exCounter - 1) = true
  r2 : ¬ (s.fsm = .doRefresh ∧ c.tRP + 2 ≤ s.exCounter) → ok ref c.tRFC = true
  r3 : s.fsm = .doRefresh → c.tRP + 2 ≤ s.exCounter → ok ref (s.exCounter - c.tRP - 1) = true
  r4 : s.fsm = .doRefresh → s.exDone = true → ok prea (c.tRP + c.tRFC) = true
  z1 : s.fsm = .doZqcs → 2 ≤ s.zqCounter → ok prea (s.zqCounter - 1) = true
  z2 : ¬ (s.fsm = .doZqcs ∧ c.tRP + 2 ≤ s.zqCounter) → ok zq (c.tZQCS.getD 0) = true
  z3 : s.fsm = .doZqcs → c.tRP + 2 ≤ s.zqCounter → ok zq (s.zqCounter - c.tRP - 1) = true
  z4 : s.fsm = .doZqcs → s.zqDone = true → ok prea (c.tRP + c.tZQCS.getD 0) = true

/-- which event the refresher issues, by state and counters -/
theorem evR_cases (c : Cfg) (hwf : WF c) (s : State) (pd : Bool) (ready : Bool) (h : Inv c s pd) (hr : inRef s.fsm = true → ready = true) :
    (evR c s ready = some .prea ↔ (s.fsm = .doRefresh ∧ s.exCounter = 1) ∨ (s.fsm = .doZqcs ∧ s.zqCounter = 1)) ∧
    (evR c s ready = some .ref ↔ (s.fsm = .doRefresh ∧ s.exCounter = c.tRP + 1)) ∧
    (evR c s ready = some .zqc ↔ (s.fsm = .doZqcs ∧ s.zqCounter = c.tRP + 1)) := by
  obtain ⟨hcnt, hzcnt, hexcl, hregs, hexd, hzqd, hzn, hf⟩ := h
  have hrp := hwf.tRP
  cases hfs : s.fsm <;> simp only [hfs] at hf
  · simp [evR, out, hfs]
  · have he : expected c s = .none := by
      simp only [expected, hf.1, hf.2.1]; simp
    rw [he] at hregs
    obtain ⟨h1, h2, h3⟩ := hregs
    simp [evR, h1, h2, h3]
  · have hrd : ready = true := hr (by simp [inRef, hfs])
    have hz0 := hf.1
    by_cases hc1 : s.exCounter = 1
    · have he : expected c s = .prea := by simp [expected, hz0, hc1]
      rw [he] at hregs
      obtain ⟨h1, h2, h3, _⟩ := hregs
      have hed : s.exDone = false := by
        cases hx : s.exDone
        · rfl
        · have := hexd hx; omega
      simp [evR, out, hfs, seqDone, hed, hrd, h1, h2, h3, hc1]
      omega
    · by_cases hc2 : s.exCounter = c.tRP + 1
      · have he : expected c s = .ref := by simp [expected, hz0, hc1, hc2]; omega
        rw [he] at hregs
        obtain ⟨h1, h2, h3⟩ := hregs
        have hed : s.exDone = false := by
          cases hx : s.exDone
          · rfl
          · have := hexd hx; omega
        simp [evR, out, hfs, seqDone, hed, hrd, h1, h2, h3, hc2]
        omega
      · have he : expected c s = .none := by simp [expected, hz0, hc1, hc2]
        rw [he] at hregs
        obtain ⟨h1, h2, h3⟩ := hregs
        simp [evR, h1, h2, h3, hc1, hc2]
  · have hrd : ready = true := hr (by simp [inRef, hfs])
    have hc0 := hf.1
    by_cases hc1 : s.zqCounter = 1
    · have he : expected c s = .prea := by simp [expected, hc1]
      rw [he] at hregs
      obtain ⟨h1, h2, h3, _⟩ := hregs
      have hed : s.zqDone = false := by
        cases hx : s.zqDone
        · rfl
        · have := hzqd hx; omega
      simp [evR, out, hfs, hed, hrd, h1, h2, h3, hc1]
      omega
    · by_cases hc2 : s.zqCounter = c.tRP + 1
      · have he : expected c s = .zqc := by simp [expected, hc1, hc2]; omega
        rw [he] at hregs
        obtain ⟨h1, h2, h3⟩ := hregs
        have hed : s.zqDone = false := by
          cases hx : s.zqDone
          · rfl
          · have := hzqd hx; omega
        simp [evR, out, hfs, hed, hrd, h1, h2, h3, hc2]
        omega
      · have he : expected c s = .none := by simp [expected, hc0, hc1, hc2]
        rw [he] at hregs
        obtain ⟨h1, h2, h3⟩ := hregs
        simp [evR, h1, h2, h3, hc1, hc2]

theorem rtinv_init (c : Cfg) : RTInv c (init c) none none none := by
  constructor <;> intros <;> rfl

theorem rtinv_step (c : Cfg) (hwf : WF c) (s : State) (pd ready : Bool) (prea ref zq : Age) (hinv : Inv c s pd)
    (h : RTInv c s prea ref zq) (hr : inRef s.fsm = true → ready = true) :
    ((evR c s ready = some .ref ∨ evR c s ready = some .zqc) →
        ok prea c.tRP = true ∧ ok ref c.tRFC = true ∧ ok zq (c.tZQCS.getD 0) = true) ∧
    RTInv c (step c s ready) (upd prea (evR c s ready == some .prea)) (upd ref (evR c s ready == some .ref))
      (upd zq (evR c s ready == some .zqc)) := by
  obtain ⟨ep, er, ez⟩ := evR_cases c hwf s pd ready hinv hr
  have hp : (evR c s ready == some .prea) = decide ((s.fsm = .doRefresh ∧ s.exCounter = 1) ∨ (s.fsm = .doZqcs ∧ s.zqCounter = 1)) := by
    rw [Bool.eq_iff_iff]; simp only [beq_iff_eq, decide_eq_true_eq]; exact ep
  have hre : (evR c s ready == some .ref) = decide (s.fsm = .doRefresh ∧ s.exCounter = c.tRP + 1) := by
    rw [Bool.eq_iff_iff]; simp only [beq_iff_eq, decide_eq_true_eq]; exact er
  have hzq : (evR c s ready == some .zqc) = decide (s.fsm = .doZqcs ∧ s.zqCounter = c.tRP + 1) := by
    rw [Bool.eq_iff_iff]; simp only [beq_iff_eq, decide_eq_true_eq]; exact ez
  rw [hp, hre, hzq, er, ez]
  clear ep er ez hp hre hzq
  obtain ⟨hcnt, hzcnt, hexcl, hregs, hexd, hzqd, hzn, hf⟩ := hinv
  obtain ⟨r1, r2, r3, r4, z1, z2, z3, z4⟩ := h
  have hrp := hwf.tRP; have hrfc := hwf.tRFC
  have hL : c.tRP + c.tRFC ≠ 0 := by omega
  have hcnt' := step_exCounter c s ready
  rw [tl_next _ _ _ hL hcnt] at hcnt'
  have hexd' := step_exDone c s ready
  rw [C04.fires_pos _ _ _ hL] at hexd'
  have hfsm' := step_fsm c s ready
  have hseqd : seqDone s = true → s.exCounter = 0 ∧ s.exDone = true := by
    intro hs; simp only [seqDone, Bool.and_eq_true] at hs; exact ⟨hexd hs.1, hs.1⟩
  clear hregs
  -- the ZQ executer's counter, in both configurations
  have hzq' : ∃ Lz, Lz = c.tRP + c.tZQCS.getD 0 ∧ (c.tZQCS.isSome = true → 1 ≤ c.tZQCS.getD 0) ∧
      (step c s ready).zqCounter = (if c.tZQCS.isSome then (if s.zqCounter = Lz then 0 else if s.zqCounter = 0 then (if zqStart c s then 1 else 0) else s.zqCounter + 1) else s.zqCounter) ∧
      (step c s ready).zqDone = (if c.tZQCS.isSome then decide (s.zqCounter = Lz) else s.zqDone) := by
    refine ⟨_, rfl, ?_, ?_⟩
    · cases hz : c.tZQCS with
      | none => simp
      | some z => intro _; simpa using hwf.tZQ z hz
    · cases hz : c.tZQCS with
      | none =>
        obtain ⟨_, h1, h2⟩ := step_regs_none c hwf s ready hz
        simp [h1, h2]
      | some z =>
        obtain ⟨h1, h2⟩ := step_zq_some c s ready z hz
        have hz1 := hwf.tZQ z hz
        have hLz : c.tRP + z ≠ 0 := by omega
        rw [hz] at hzcnt
        simp only [Option.getD_some] at hzcnt
        rw [tl_next _ _ _ hLz hzcnt] at h1
        rw [C04.fires_pos _ _ _ hLz] at h2
        simp only [h1, h2, Option.isSome_some, if_true, Option.getD_some, true_and]
        by_cases hq : s.zqCounter = c.tRP + z <;> simp [hq]
  obtain ⟨Lz, hLz, hz1, hzc', hzd'⟩ := hzq'
  have hzs : zqStart c s = true → s.fsm = .doRefresh ∧ seqDone s = true ∧ c.tZQCS.isSome = true := by
    simp only [zqStart, wantsZqcs, Bool.and_eq_true, beq_iff_eq]; grind
  have hes : exStart s ready = true → (s.fsm = .waitBm ∧ ready = true) ∨ s.seqCount ≠ 0 := by
    simp only [exStart, Bool.or_eq_true, Bool.and_eq_true, beq_iff_eq, bne_iff_ne]; grind
  have hfacts : (s.fsm = .idle ∨ s.fsm = .waitBm ∨ s.fsm = .doRefresh → s.zqCounter = 0) ∧
                (s.fsm = .doZqcs → s.exCounter = 0 ∧ s.seqCount = 0 ∧ c.tZQCS.isSome = true) ∧ (s.fsm = .waitBm → s.exCounter = 0 ∧ s.seqCount = 0) := by
    cases hfs : s.fsm <;> simp only [hfs] at hf <;> simp
    · exact hf.1
    · exact ⟨hf.1, hf.2.1, hf.2.2⟩
    · exact hf.1
    · refine ⟨hf.1, hf.2.1, ?_⟩
      cases hz : c.tZQCS with
      | none => exact absurd hfs (hzn hz).2
      | some z => rfl
  have hwz : wantsZqcs c s = true → c.tZQCS.isSome = true := by simp only [wantsZqcs, Bool.and_eq_true]; exact fun h => h.1
  rw [fsmNext] at hfsm'
  generalize hLdef : c.tRP + c.tRFC = L at *
  generalize htz : c.tZQCS.getD 0 = tz at *
  generalize hhz : c.tZQCS.isSome = hasz at *
  clear hzn hf
  have hrdy : s.fsm = .doRefresh ∨ s.fsm = .doZqcs → ready = true := by
    intro h; apply hr; rcases h with e | e <;> simp [inRef, e]
  clear hr
  refine ⟨?_, ⟨?_, ?_, ?_, ?_, ?_, ?_, ?_, ?_⟩⟩
  · -- allowed
    rintro (⟨hfs, hc⟩ | ⟨hfs, hc⟩)
    · refine ⟨?_, r2 (by omega), z2 (by simp [hfs])⟩
      have := r1 hfs (by omega)
      rw [hc] at this; simpa using this
    · refine ⟨?_, r2 (by simp [hfs]), z2 (by omega)⟩
      have := z1 hfs (by omega)
      rw [hc] at this; simpa using this
  · -- r1
    rw [hfsm', hcnt']
    intro h1 h2
    cases hfs : s.fsm <;> simp only [hfs] at * <;> cases prea <;> simp [upd] at * <;> grind [ok_some, ok_none]
  · -- r2
    rw [hfsm', hcnt']
    intro h1
    cases hfs : s.fsm <;> simp only [hfs] at * <;> cases ref <;> simp [upd] at * <;> grind [ok_some, ok_none]
  · -- r3
    rw [hfsm', hcnt']
    intro h1 h2
    cases hfs : s.fsm <;> simp only [hfs] at * <;> cases ref <;> simp [upd] at * <;> grind [ok_some, ok_none]
  · -- r4
    rw [hfsm', hexd']
    intro h1 h2
    cases hfs : s.fsm <;> simp only [hfs] at * <;> cases prea <;> simp [upd] at * <;> grind [ok_some, ok_none]
  · -- z1
    rw [hfsm', hzc']
    intro h1 h2
    cases hfs : s.fsm <;> simp only [hfs] at * <;> cases prea <;> simp [upd] at * <;> grind [ok_some, ok_none]
  · -- z2
    rw [hfsm', hzc']
    intro h1
    cases hfs : s.fsm <;> simp only [hfs] at * <;> cases zq <;> simp [upd] at * <;> grind [ok_some, ok_none]
  · -- z3
    rw [hfsm', hzc']
    intro h1 h2
    cases hfs : s.fsm <;> simp only [hfs] at * <;> cases zq <;> simp [upd] at * <;> grind [ok_some, ok_none]
  · -- z4
    rw [hfsm', hzd']
    intro h1 h2
    cases hfs : s.fsm <;> simp only [hfs] at * <;> cases prea <;> simp [upd] at * <;> grind [ok_some, ok_none]

end RfTiming
