/-
Helper lemmas (no property statements): every shape of the stream FIFO model (`Model/Fifo.lean`, depth ≥ 1: PipeValid, SyncFIFO,
SyncFIFOBuffered) refines a queue - the entries held, oldest first, are `contents`; a step pops the head exactly when the source
handshakes, appends the sink's payload exactly when the sink handshakes, and the source shows the head.
-/
import LitedramVerif.Model.Fifo
namespace Fifo

def contents {α : Type} (s : State α) : List α := s.out.toList ++ s.q

/-- shape invariant: only the buffered variant uses the output register; PipeValid holds at most one entry -/
structure WF {α : Type} (c : Cfg) (s : State α) : Prop where
  out : ¬ (2 ≤ c.depth ∧ c.buffered = true) → s.out = none
  one : c.depth = 1 → s.q.length ≤ 1
  cap : s.q.length ≤ c.depth

theorem wf_init {α : Type} (c : Cfg) : WF c (init : State α) :=
  ⟨fun _ => rfl, fun _ => by simp [init], by simp [init]⟩

theorem step_contents {α : Type} (c : Cfg) (hd : 1 ≤ c.depth) (s : State α) (hw : WF c s) (v : Bool) (d : α) (r : Bool) :
    contents (step c s v d r) =
      (if srcValid c s v && r then (contents s).tail else contents s) ++ (if v && sinkReady c s r then [d] else []) ∧
    (srcValid c s v = true → srcData c s d = (contents s).head?) ∧
    (srcValid c s v = true → contents s ≠ []) ∧
    WF c (step c s v d r) := by
  obtain ⟨depth, buffered⟩ := c
  obtain ⟨q, out⟩ := s
  obtain ⟨ho, h1, hc⟩ := hw
  simp only at hd ho h1 hc
  have e0 : (depth == 0) = false := by simpa using (by omega : depth ≠ 0)
  by_cases hd1 : depth = 1
  · subst hd1
    have hout : out = none := ho (by omega)
    subst hout
    have hq := h1 rfl
    have hwf : ∀ l : List α, l.length ≤ 1 → WF ({ depth := 1, buffered := buffered } : Cfg) ({ q := l } : State α) :=
      fun l hl => ⟨fun _ => rfl, fun _ => hl, hl⟩
    match q, hq with
    | [], _ =>
      refine ⟨?_, ?_, ?_, ?_⟩
      · cases v <;> cases r <;> simp [step, contents, srcValid, sinkReady]
      · simp [srcValid]
      · simp [srcValid]
      · cases v <;> cases r <;> simp [step] <;> exact hwf _ (by simp)
    | [x], _ =>
      refine ⟨?_, ?_, ?_, ?_⟩
      · cases v <;> cases r <;> simp [step, contents, srcValid, sinkReady]
      · simp [srcValid, srcData, contents]
      · simp [contents]
      · cases v <;> cases r <;> simp [step] <;> exact hwf _ (by simp)
  · have hd2 : 2 ≤ depth := by omega
    have e1 : (depth == 1) = false := by simpa using hd1
    have e2 : decide (depth ≥ 2) = true := by simpa using hd2
    have hfull : (q.length != depth) = !decide (q.length = depth) := by
      by_cases h : q.length = depth <;> simp [h]
    cases buffered with
    | false =>
      have hout : out = none := ho (by simp)
      subst hout
      simp only [step, contents, srcValid, srcData, sinkReady, e0, e1, e2, Bool.false_eq_true, if_false, Bool.and_false,
        Option.toList_none, List.nil_append]
      refine ⟨?_, ?_, ?_, ?_⟩
      · by_cases hf : q.length = depth <;> cases q <;> cases v <;> cases r <;> simp_all
      · cases q <;> simp
      · cases q <;> simp
      · refine ⟨fun _ => rfl, fun h => absurd h hd1, ?_⟩
        simp only
        by_cases hf : q.length = depth
        · cases q <;> cases v <;> cases r <;> simp_all <;> omega
        · cases q <;> cases v <;> cases r <;> simp_all <;> omega
    | true =>
      simp only [step, contents, srcValid, srcData, sinkReady, e0, e1, e2, Bool.false_eq_true, if_false, Bool.and_true, if_true]
      refine ⟨?_, ?_, ?_, ?_⟩
      · by_cases hf : q.length = depth <;> cases out <;> cases q <;> cases v <;> cases r <;> simp_all
      · cases out <;> simp
      · cases out <;> simp
      · refine ⟨fun h => absurd ⟨hd2, rfl⟩ h, fun h => absurd h hd1, ?_⟩
        simp only
        by_cases hf : q.length = depth
        · cases out <;> cases q <;> cases v <;> cases r <;> simp_all <;> omega
        · cases out <;> cases q <;> cases v <;> cases r <;> simp_all <;> omega

end Fifo
