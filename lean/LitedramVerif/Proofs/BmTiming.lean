/-
Helper lemmas (no property statements): timing invariant of one bank machine against the ages kept by the
specification monitor `Spec/TimingMon.lean` (cycles since the bank's last ACT / precharge / WR / RD+AP / WR+AP).
 * `binv_step`  one clock edge: the accepted command is allowed by the monitor's per-bank rules (tRCD, tRP after an
                explicit precharge or precharge-all, tRC, tRAS, tWTP, and after an auto-precharge tRP / tWTP+tRP /
                tRAS+tRP), a granted refresh implies tRAS and tWTP have elapsed, and the invariant is re-established
 * `fsm_core`   the state-dependent part over a Boolean summary of the control path (`step_summary`)
Used by Proofs/CtlTiming.lean (composed controller) for Props/C03_Controller.lean.
-/
import LitedramVerif.Props.C03
import LitedramVerif.Spec.TimingMon
namespace BmTiming
open BankMachine Hw TimingMon

@[simp] theorem ok_none (t : Nat) : ok none t = true := rfl
@[simp] theorem ok_some (x t : Nat) : ok (some x) t = decide (t ≤ x) := rfl
@[simp] theorem tick_none : tick none = none := rfl
@[simp] theorem tick_some (x : Nat) : tick (some x) = some (x + 1) := rfl

/-- the monitor's ages that concern one bank -/
structure BAges where
  act : Age
  pre : Age
  wr : Age
  apRd : Age
  apWr : Age
  apPend : Bool

def BAges.init : BAges := ⟨none, none, none, none, none, false⟩

/-- how `TimingMon.advance` moves them, given the bank machine's accepted command (`isWr`: the CAS is a write) and whether a
precharge-all is issued -/
def bAdvance (a : BAges) (cmd : C02.Cmd) (isWr prea : Bool) : BAges :=
  match cmd with
  | .act _ => { act := some 1, pre := if prea then some 1 else tick a.pre, wr := tick a.wr, apRd := tick a.apRd, apWr := tick a.apWr, apPend := false }
  | .pre => { act := tick a.act, pre := some 1, wr := tick a.wr, apRd := tick a.apRd, apWr := tick a.apWr, apPend := a.apPend }
  | .cas ap =>
    { act := tick a.act, pre := if prea then some 1 else tick a.pre, wr := if isWr then some 1 else tick a.wr,
      apRd := if ap && !isWr then some 1 else if ap && isWr then none else tick a.apRd,
      apWr := if ap && isWr then some 1 else if ap && !isWr then none else tick a.apWr,
      apPend := if ap then true else a.apPend }
  | .nop => { act := tick a.act, pre := if prea then some 1 else tick a.pre, wr := tick a.wr, apRd := tick a.apRd, apWr := tick a.apWr, apPend := a.apPend }

/-- timer invariant against an age (`none` = no strobe so far) -/
def TxAge (t : Option Nat) (tx : TX) (a : Age) : Prop :=
  match t, a with
  | some x, some k => C03.TxInv x tx k
  | _, _ => True

/-- state-dependent part: what the ages are known to satisfy in each FSM state -/
def FsmI (c : Cfg) (f : BankMachine.St) (ro : Bool) (a : BAges) : Prop :=
  match f with
    | .regular => a.apPend = false ∧ (ro = true → ok a.act c.tRCD = true ∧ ok a.pre c.tRP = true) ∧
                  (ro = false → ok a.pre (c.tRP - 1) = true)
    | .trcd k => a.apPend = false ∧ a.act = some (k + 1) ∧ k + 1 < c.tRCD ∧ ok a.pre c.tRP = true
    | .precharge => a.apPend = false ∧ ok a.pre c.tRP = true
    | .autoprecharge => a.apPend = true ∧ ok a.pre c.tRP = true
    | .trp k => k + 1 < c.tRP ∧
        (a.apPend = false → a.pre = some (k + 1)) ∧
        (a.apPend = true → ok a.pre c.tRP = true ∧ ok a.apRd (k + 1) = true ∧ ok a.apWr (c.twtp + (k + 1)) = true ∧ ok a.act (c.tRAS.getD 0 + (k + 1)) = true)
    | .activate =>
        (a.apPend = false → ok a.pre c.tRP = true) ∧
        (a.apPend = true → ok a.pre c.tRP = true ∧ ok a.apRd c.tRP = true ∧ ok a.apWr (c.twtp + c.tRP) = true ∧ ok a.act (c.tRAS.getD 0 + c.tRP) = true)
    | .refresh => a.apPend = false

structure BInv (c : Cfg) (s : State) (a : BAges) : Prop where
  wtp : TxAge (some c.twtp) s.twtp a.wr
  ras : TxAge c.tRAS s.tras a.act
  rc : TxAge c.tRC s.trc a.act
  apw : a.apPend = true → a.apWr = none ∨ a.apWr = a.wr
  fsmI : FsmI c s.fsm s.rowOpened a

/-- what the monitor requires of this bank machine's command -/
def bAllowed (c : Cfg) (a : BAges) : C02.Cmd → Bool
  | .act _ => ok a.pre c.tRP && ok a.act (c.tRC.getD 0) &&
      (!a.apPend || (ok a.apRd c.tRP && ok a.apWr (c.twtp + c.tRP) && ok a.act (c.tRAS.getD 0 + c.tRP)))
  | .cas _ => ok a.act c.tRCD
  | .pre => ok a.act (c.tRAS.getD 0) && ok a.wr c.twtp
  | .nop => true

theorem txage_ready (t : Option Nat) (tx : TX) (a : Age) (h : TxAge t tx a) (hr : tx.ready = true) : ok a (t.getD 0) = true := by
  cases t with
  | none => cases a <;> simp [ok]
  | some x =>
    cases a with
    | none => simp [ok]
    | some k =>
      simp only [TxAge, C03.TxInv] at h
      simp only [ok, Option.getD_some, decide_eq_true_eq]
      refine Decidable.byContradiction fun hlt => ?_
      have := (h (by omega)).1
      rw [this] at hr; cases hr

theorem txage_step (t : Option Nat) (tx : TX) (a : Age) (v : Bool) (h : TxAge t tx a) :
    TxAge t (TX.step t tx v) (if v then some 1 else tick a) := by
  cases t with
  | none => simp [TxAge]
  | some x =>
    cases v with
    | true =>
      simp only [TxAge, if_true]
      have := C03.tx_step x tx x true (by intro hh; omega)
      simpa [C03.since'] using this
    | false =>
      cases a with
      | none => simp [TxAge, tick]
      | some k =>
        simp only [TxAge, tick, Option.map_some] at h ⊢
        have := C03.tx_step x tx k false h
        simpa [C03.since'] using this

theorem txage_init (t : Option Nat) : TxAge t (TX.init t) none := by
  cases t <;> simp [TxAge]

/-- the strobes of the bank machine's three timers, and the accepted command -/
def wrStrobe (c : Cfg) (s : State) (i : In) : Bool :=
  (BankMachine.step c s i).2.cmdValid && i.ready && (BankMachine.step c s i).2.isWrite
def actStrobe (c : Cfg) (s : State) (i : In) : Bool :=
  (BankMachine.step c s i).2.cmdValid && i.ready && (s.fsm == .activate && s.trc.ready)

theorem step_twtp (c : Cfg) (s : State) (i : In) :
    (BankMachine.step c s i).1.twtp = TX.step (some c.twtp) s.twtp (wrStrobe c s i) := rfl
theorem step_tras (c : Cfg) (s : State) (i : In) :
    (BankMachine.step c s i).1.tras = TX.step c.tRAS s.tras (actStrobe c s i) := rfl
theorem step_trc (c : Cfg) (s : State) (i : In) :
    (BankMachine.step c s i).1.trc = TX.step c.tRC s.trc (actStrobe c s i) := rfl

def cmdOfStep (c : Cfg) (s : State) (i : In) : C02.Cmd :=
  C02.cmdOf (BankMachine.step c s i).1 (BankMachine.step c s i).2 i.ready

theorem cmd_strobes (c : Cfg) (s : State) (i : In) :
    (wrStrobe c s i = match cmdOfStep c s i with | .cas _ => s.buf.we | _ => false) ∧
    (actStrobe c s i = match cmdOfStep c s i with | .act _ => true | _ => false) := by
  simp only [wrStrobe, actStrobe, cmdOfStep, C02.cmdOf, BankMachine.step]
  cases hf : s.fsm <;> cases hr : i.ready <;> simp <;> grind

theorem ok_tick (a : Age) (t : Nat) (h : ok a t = true) : ok (tick a) t = true := by
  cases a with
  | none => rfl
  | some k => simp at h ⊢; omega

theorem ok_mono (a : Age) (t t' : Nat) (h : ok a t = true) (hle : t' ≤ t) : ok a t' = true := by
  cases a with
  | none => rfl
  | some k => simp at h ⊢; omega

theorem ok_tick_succ (a : Age) (t : Nat) (h : ok a t = true) : ok (tick a) (t + 1) = true := by
  cases a with
  | none => rfl
  | some k => simp at h ⊢; omega

/-- ages of the three timers after the edge -/
theorem badv_wr (a : BAges) (cmd : C02.Cmd) (isWr prea : Bool) :
    (bAdvance a cmd isWr prea).wr = if (match cmd with | .cas _ => isWr | _ => false) then some 1 else tick a.wr := by
  cases cmd <;> simp [bAdvance] <;> cases isWr <;> simp
theorem badv_act (a : BAges) (cmd : C02.Cmd) (isWr prea : Bool) :
    (bAdvance a cmd isWr prea).act = if (match cmd with | .act _ => true | _ => false) then some 1 else tick a.act := by
  cases cmd <;> simp [bAdvance]

theorem binv_timers (c : Cfg) (s : State) (i : In) (a : BAges) (prea : Bool) (h : BInv c s a) :
    TxAge (some c.twtp) (BankMachine.step c s i).1.twtp (bAdvance a (cmdOfStep c s i) s.buf.we prea).wr ∧
    TxAge c.tRAS (BankMachine.step c s i).1.tras (bAdvance a (cmdOfStep c s i) s.buf.we prea).act ∧
    TxAge c.tRC (BankMachine.step c s i).1.trc (bAdvance a (cmdOfStep c s i) s.buf.we prea).act := by
  obtain ⟨e1, e2⟩ := cmd_strobes c s i
  rw [step_twtp, step_tras, step_trc, badv_wr, badv_act, ← e1, ← e2]
  exact ⟨txage_step _ _ _ _ h.wtp, txage_step _ _ _ _ h.ras, txage_step _ _ _ _ h.rc⟩

theorem binv_apw (c : Cfg) (s : State) (i : In) (a : BAges) (prea : Bool)
    (hapw : a.apPend = true → a.apWr = none ∨ a.apWr = a.wr)
    (hreg : s.fsm = .regular → a.apPend = false) :
    (bAdvance a (cmdOfStep c s i) s.buf.we prea).apPend = true →
      (bAdvance a (cmdOfStep c s i) s.buf.we prea).apWr = none ∨
      (bAdvance a (cmdOfStep c s i) s.buf.we prea).apWr = (bAdvance a (cmdOfStep c s i) s.buf.we prea).wr := by
  have hcas : ∀ ap, cmdOfStep c s i = .cas ap → s.fsm = .regular := by
    intro ap
    simp only [cmdOfStep, C02.cmdOf, BankMachine.step]
    cases hfs : s.fsm <;> cases hr : i.ready <;> simp <;> (repeat' split) <;> simp
  generalize hcmd : cmdOfStep c s i = cmd at *
  cases cmd with
  | nop => simp only [bAdvance]; intro hp; rcases hapw hp with e | e <;> simp [e]
  | pre => simp only [bAdvance]; intro hp; rcases hapw hp with e | e <;> simp [e]
  | act r => simp [bAdvance]
  | cas ap =>
    have hnp := hreg (hcas ap rfl)
    cases ap <;> cases hw : s.buf.we <;> simp [bAdvance, hnp]

/-! ### a small summary of the bank machine's control path -/
def nxt (c : Cfg) (f : BankMachine.St) (rdy rfr bv ro rh ap tw ta tc : Bool) : BankMachine.St :=
  match f with
  | .regular =>
    if rfr then .refresh
    else if bv then (if ro then (if rh then (if rdy && ap then .autoprecharge else .regular) else .precharge) else .activate)
    else .regular
  | .precharge => if tw && ta && rdy then enter (c.tRP - 1) .trp .activate else .precharge
  | .autoprecharge => if tw && ta then enter (c.tRP - 1) .trp .activate else .autoprecharge
  | .activate => if tc && rdy then enter (c.tRCD - 1) .trcd .regular else .activate
  | .refresh => if !rfr then .regular else .refresh
  | .trp k => if k + 1 < c.tRP - 1 then .trp (k + 1) else .activate
  | .trcd k => if k + 1 < c.tRCD - 1 then .trcd (k + 1) else .regular

def cmdS (f : BankMachine.St) (rdy rfr bv ro rh ap tw ta tc : Bool) (row : Nat) : C02.Cmd :=
  match f with
  | .regular => if !rfr && bv && ro && rh && rdy then .cas ap else .nop
  | .precharge => if tw && ta && rdy then .pre else .nop
  | .activate => if tc && rdy then .act row else .nop
  | _ => .nop

def roS (f : BankMachine.St) (ro tc : Bool) : Bool :=
  match f with
  | .precharge | .autoprecharge | .refresh => false
  | .activate => if tc then true else ro
  | _ => ro

def apx (c : Cfg) (s : State) (i : In) : Bool :=
  c.ap && (if c.depth == 0 then i.valid else s.level != 0) && s.bufValid &&
    (rowFull c (if c.depth == 0 then (⟨i.we, i.addr⟩ : Entry) else s.mem[s.consume]!).addr != rowFull c s.buf.addr)

theorem step_summary (c : Cfg) (s : State) (i : In) :
    (BankMachine.step c s i).1.fsm = nxt c s.fsm i.ready i.refresh s.bufValid s.rowOpened (s.row == rowFull c s.buf.addr) (apx c s i)
        s.twtp.ready s.tras.ready s.trc.ready ∧
    (BankMachine.step c s i).1.rowOpened = roS s.fsm s.rowOpened s.trc.ready ∧
    ∃ row, cmdOfStep c s i = cmdS s.fsm i.ready i.refresh s.bufValid s.rowOpened (s.row == rowFull c s.buf.addr) (apx c s i)
        s.twtp.ready s.tras.ready s.trc.ready row := by
  refine ⟨?_, ?_, ?_⟩
  · simp only [BankMachine.step, nxt, apx]
    cases hf : s.fsm <;> simp
  · simp only [BankMachine.step, roS]
    cases hf : s.fsm <;> simp
  · refine ⟨(BankMachine.step c s i).2.a, ?_⟩
    simp only [cmdOfStep, C02.cmdOf, BankMachine.step, cmdS, apx]
    cases hf : s.fsm <;> cases hr : i.ready <;> simp <;> grind

theorem fsm_core (c : Cfg) (hrp : 1 ≤ c.tRP) (f : BankMachine.St) (rdy rfr bv ro rh ap tw ta tc isWr prea : Bool) (row : Nat) (a : BAges)
    (hf : FsmI c f ro a)
    (hapw : a.apPend = true → a.apWr = none ∨ a.apWr = a.wr)
    (rw1 : tw = true → ok a.wr c.twtp = true)
    (rw2 : ta = true → ok a.act (c.tRAS.getD 0) = true)
    (hprea : prea = true → f = .refresh ∧ rfr = true)
    (hexit : f = .refresh → rfr = false → ok a.pre c.tRP = true) :
    FsmI c (nxt c f rdy rfr bv ro rh ap tw ta tc) (roS f ro tc) (bAdvance a (cmdS f rdy rfr bv ro rh ap tw ta tc row) isWr prea) := by
  obtain ⟨aact, apre, awr, aard, aawr, app⟩ := a
  have hpf : f ≠ .refresh → prea = false := by
    intro hne; cases hp : prea
    · rfl
    · exact absurd (hprea hp).1 hne
  cases f with
  | regular =>
    have := hpf (by simp); subst this
    simp only [FsmI, nxt, cmdS, roS] at hf ⊢
    cases rfr <;> cases bv <;> cases ro <;> cases rh <;> cases rdy <;> cases ap <;> simp_all [bAdvance, FsmI] <;>
      (cases aact <;> cases apre <;> simp_all <;> omega)
  | trcd k =>
    have := hpf (by simp); subst this
    simp only [FsmI] at hf
    by_cases hk : k + 1 < c.tRCD - 1
    · simp only [nxt, hk, if_true, cmdS, roS, FsmI, bAdvance]
      (cases aact <;> cases apre <;> cases awr <;> cases aard <;> cases aawr <;> cases app <;> simp_all <;> (try omega))
    · simp only [nxt, hk, if_false, cmdS, roS, FsmI, bAdvance]
      (cases aact <;> cases apre <;> cases awr <;> cases aard <;> cases aawr <;> cases app <;> simp_all <;> (try omega))
  | precharge =>
    have := hpf (by simp); subst this
    simp only [FsmI] at hf
    by_cases hacc : (tw && ta && rdy) = true
    · by_cases hd : c.tRP - 1 > 0
      · simp only [nxt, hacc, if_true, enter, hd, cmdS, roS, FsmI, bAdvance]
        (cases aact <;> cases apre <;> cases awr <;> cases aard <;> cases aawr <;> cases app <;> simp_all <;> (try omega))
      · simp only [nxt, hacc, if_true, enter, hd, if_false, cmdS, roS, FsmI, bAdvance]
        (cases aact <;> cases apre <;> cases awr <;> cases aard <;> cases aawr <;> cases app <;> simp_all <;> (try omega))
    · have hacc' : (tw && ta && rdy) = false := by simpa using hacc
      simp only [nxt, hacc', Bool.false_eq_true, if_false, cmdS, roS, FsmI, bAdvance]
      (cases aact <;> cases apre <;> cases awr <;> cases aard <;> cases aawr <;> cases app <;> simp_all <;> (try omega))
  | autoprecharge =>
    have := hpf (by simp); subst this
    simp only [FsmI] at hf
    by_cases hacc : (tw && ta) = true
    · have htw : tw = true := by simp at hacc; exact hacc.1
      have hta : ta = true := by simp at hacc; exact hacc.2
      have e1 := rw1 htw; have e2 := rw2 hta
      by_cases hd : c.tRP - 1 > 0
      · simp only [nxt, hacc, if_true, enter, hd, cmdS, roS, FsmI, bAdvance]
        (cases aact <;> cases apre <;> cases awr <;> cases aard <;> cases aawr <;> cases app <;> simp_all <;> (try omega))
      · simp only [nxt, hacc, if_true, enter, hd, if_false, cmdS, roS, FsmI, bAdvance]
        (cases aact <;> cases apre <;> cases awr <;> cases aard <;> cases aawr <;> cases app <;> simp_all <;> (try omega))
    · have hacc' : (tw && ta) = false := by simpa using hacc
      simp only [nxt, hacc', Bool.false_eq_true, if_false, cmdS, roS, FsmI, bAdvance]
      (cases aact <;> cases apre <;> cases awr <;> cases aard <;> cases aawr <;> cases app <;> simp_all <;> (try omega))
  | trp k =>
    have := hpf (by simp); subst this
    simp only [FsmI] at hf
    obtain ⟨h1, h2, h3⟩ := hf
    by_cases hk : k + 1 < c.tRP - 1
    · have hn : nxt c (.trp k) rdy rfr bv ro rh ap tw ta tc = .trp (k + 1) := by simp [nxt, hk]
      rw [hn]
      simp only [cmdS, FsmI, bAdvance]
      refine ⟨by omega, fun hp => ?_, fun hp => ?_⟩
      · rw [h2 hp]; rfl
      · obtain ⟨e1, e2, e3, e4⟩ := h3 hp
        exact ⟨ok_tick _ _ e1, ok_tick_succ _ _ e2, ok_tick_succ _ _ e3, ok_tick_succ _ _ e4⟩
    · have hn : nxt c (.trp k) rdy rfr bv ro rh ap tw ta tc = .activate := by simp [nxt, hk]
      rw [hn]
      simp only [cmdS, FsmI, bAdvance]
      have hk2 : k + 1 + 1 = c.tRP := by omega
      refine ⟨fun hp => ?_, fun hp => ?_⟩
      · rw [h2 hp]; simp; omega
      · obtain ⟨e1, e2, e3, e4⟩ := h3 hp
        refine ⟨ok_tick _ _ e1, ?_, ?_, ?_⟩
        · rw [← hk2]; exact ok_tick_succ _ _ e2
        · rw [← hk2]; exact ok_tick_succ _ _ e3
        · rw [← hk2]; exact ok_tick_succ _ _ e4
  | activate =>
    have := hpf (by simp); subst this
    simp only [FsmI] at hf
    obtain ⟨h1, h2⟩ := hf
    have hpre : ok apre c.tRP = true := by
      cases app
      · exact h1 rfl
      · exact (h2 rfl).1
    by_cases hacc : (tc && rdy) = true
    · have htc : tc = true := by simp at hacc; exact hacc.1
      by_cases hd : c.tRCD - 1 > 0
      · have hn : nxt c .activate rdy rfr bv ro rh ap tw ta tc = .trcd 0 := by simp [nxt, hacc, enter, hd]
        have hcm : cmdS .activate rdy rfr bv ro rh ap tw ta tc row = .act row := by simp [cmdS, hacc]
        rw [hn, hcm]
        simp only [FsmI, bAdvance]
        exact ⟨trivial, trivial, by omega, by simpa using ok_tick _ _ hpre⟩
      · have hn : nxt c .activate rdy rfr bv ro rh ap tw ta tc = .regular := by simp [nxt, hacc, enter, hd]
        have hcm : cmdS .activate rdy rfr bv ro rh ap tw ta tc row = .act row := by simp [cmdS, hacc]
        rw [hn, hcm]
        simp only [FsmI, bAdvance, roS, htc, if_true]
        refine ⟨trivial, fun _ => ⟨by simp; omega, by simpa using ok_tick _ _ hpre⟩, fun h => by cases h⟩
    · have hacc' : (tc && rdy) = false := by simpa using hacc
      have hn : nxt c .activate rdy rfr bv ro rh ap tw ta tc = .activate := by simp [nxt, hacc']
      have hcm : cmdS .activate rdy rfr bv ro rh ap tw ta tc row = .nop := by simp [cmdS, hacc']
      rw [hn, hcm]
      simp only [FsmI, bAdvance]
      refine ⟨fun hp => by simpa using ok_tick _ _ (h1 hp), fun hp => ?_⟩
      obtain ⟨e1, e2, e3, e4⟩ := h2 hp
      exact ⟨by simpa using ok_tick _ _ e1, ok_tick _ _ e2, ok_tick _ _ e3, ok_tick _ _ e4⟩
  | refresh =>
    simp only [FsmI] at hf
    cases hr : rfr
    · have hp : prea = false := by
        cases hp : prea
        · rfl
        · have := (hprea hp).2; rw [hr] at this; cases this
      subst hp
      have hx := hexit rfl hr
      simp only [nxt, Bool.not_false, if_true, cmdS, roS, FsmI, bAdvance]
      (cases aact <;> cases apre <;> cases awr <;> cases aard <;> cases aawr <;> cases app <;> simp_all <;> (try omega))
    · simp only [nxt, Bool.not_true, Bool.false_eq_true, if_false, cmdS, roS, FsmI, bAdvance]
      (cases aact <;> cases apre <;> cases awr <;> cases aard <;> cases aawr <;> cases app <;> simp_all <;> (try omega))

theorem binv_step (c : Cfg) (hrp : 1 ≤ c.tRP) (s : State) (i : In) (a : BAges) (prea : Bool) (h : BInv c s a)
    (hprea : prea = true → s.fsm = .refresh ∧ i.refresh = true)
    (hexit : s.fsm = .refresh → i.refresh = false → ok a.pre c.tRP = true) :
    bAllowed c a (cmdOfStep c s i) = true ∧
    BInv c (BankMachine.step c s i).1 (bAdvance a (cmdOfStep c s i) s.buf.we prea) ∧
    ((BankMachine.step c s i).2.refreshGnt = true → ok a.act (c.tRAS.getD 0) = true ∧ ok a.wr c.twtp = true) := by
  obtain ⟨ht1, ht2, ht3⟩ := binv_timers c s i a prea h
  obtain ⟨hw, hr, hc, hapw, hf⟩ := h
  have rw1 : s.twtp.ready = true → ok a.wr c.twtp = true := fun hh => by simpa using txage_ready _ _ _ hw hh
  have rw2 : s.tras.ready = true → ok a.act (c.tRAS.getD 0) = true := fun hh => txage_ready _ _ _ hr hh
  have rw3 : s.trc.ready = true → ok a.act (c.tRC.getD 0) = true := fun hh => txage_ready _ _ _ hc hh
  refine ⟨?_, ⟨ht1, ht2, ht3, ?_, ?_⟩, ?_⟩
  · -- allowed
    simp only [cmdOfStep, C02.cmdOf, BankMachine.step]
    cases hfs : s.fsm <;> simp only [hfs, FsmI] at hf <;> cases hr : i.ready <;> simp [bAllowed] <;>
      (try cases hap : a.apPend) <;> simp_all <;> grind
  · -- apw
    exact binv_apw c s i a prea hapw (fun hreg => by simp only [hreg, FsmI] at hf; exact hf.1)
  · obtain ⟨e1, e2, row, e3⟩ := step_summary c s i
    rw [e1, e2, e3]
    exact fsm_core c hrp s.fsm _ _ _ _ _ _ _ _ _ _ prea row a hf hapw rw1 rw2 hprea hexit
  · simp only [BankMachine.step]
    intro hg
    simp at hg
    exact ⟨rw2 hg.2, rw1 hg.1.2⟩

end BmTiming
