/-
Helper lemmas (no property statements) for Props/C04_Rate.lean: the refresher's episodes inside the composed controller.
 * `rf_step_facts`, `rf_zq_facts`   what one clock edge does to the refresher FSM, the sequencer (`Wd`: cycles until DO-REFRESH
                                    is left) and the ZQCS executer (`zqRem`)
 * `tr_step`                        the request timer: `Tr` (cycles until the postponer's next request) counts down and reloads
 * `epi`, `NL`, `nl_step`           `epi` bounds the cycles until the refresher is idle again (`CtlLive.psi` while it waits for
                                    the bus, then the sequencer, then ZQCS); the invariant `epi ≤ Tr` is inductive under `Budget`,
                                    so a request always finds the refresher idle (`NL.lost`)
 * `refAcc_iff`, `owed_step`, `Acct`, `acct_step`   exact accounting of AUTO REFRESH commands against requests and time
 * `epi_dec`, `reach_idle`          an episode is over within `epi` cycles
 * `zqDue`, `zpot`, `zq_step`, `reach_zq`   a due ZQ calibration: the bound `zpot` on the cycles until its ZQC command is taken
                                    goes down on every clock edge (next request of the postponer, wait for the bus, the refresh burst, tRP)
-/
import LitedramVerif.Proofs.CtlLive
namespace RefreshRate
open Hw Refresher RefresherInv

/-- cycles until DO-REFRESH is left -/
def Wd (c : Refresher.Cfg) (s : Refresher.State) : Nat :=
  s.seqCount * M c + (if s.exCounter ≠ 0 then M c - s.exCounter else 0) + 1
/-- cycles until DO-ZQCS is left -/
def zqRem (c : Refresher.Cfg) (s : Refresher.State) : Nat :=
  match c.tZQCS with
  | none => 0
  | some z => (if s.zqCounter ≠ 0 then c.tRP + z + 1 - s.zqCounter else 0) + 1

theorem rf_step_facts (c : Refresher.Cfg) (hwf : WF c) (r : Refresher.State) (pd ready : Bool) (h : Inv c r pd)
    (hexd : r.fsm = .doRefresh → r.exCounter = 0 → r.exDone = true)
    (hzqd : r.fsm = .doZqcs → r.zqCounter = 0 → r.zqDone = true) :
    (r.fsm = .doRefresh →
      ((Refresher.step c r ready).fsm = .doRefresh ∧ Wd c (Refresher.step c r ready) + 1 = Wd c r) ∨
      ((Refresher.step c r ready).fsm = .idle ∧ Wd c r = 1) ∨
      ((Refresher.step c r ready).fsm = .doZqcs ∧ Wd c r = 1 ∧ zqRem c (Refresher.step c r ready) = zqLen c)) ∧
    (r.fsm = .waitBm → (ready = true → (Refresher.step c r ready).fsm = .doRefresh ∧ Wd c (Refresher.step c r ready) = c.postponing * M c) ∧
      (ready = false → (Refresher.step c r ready).fsm = .waitBm)) ∧
    (r.fsm = .idle → (Refresher.step c r ready).fsm = .idle ∨ ((Refresher.step c r ready).fsm = .waitBm ∧ r.reqO = true)) ∧
    ((Refresher.step c r ready).fsm = .doRefresh → (Refresher.step c r ready).exCounter = 0 → (Refresher.step c r ready).exDone = true) := by
  obtain ⟨hcnt, hzcnt, hexcl, hregs, hexd0, hzqd0, hzn, hf⟩ := h
  have hrp := hwf.tRP; have hrfc := hwf.tRFC; have hP := hwf.post
  have hL : c.tRP + c.tRFC ≠ 0 := by omega
  have hcnt' := step_exCounter c r ready
  rw [tl_next _ _ _ hL hcnt] at hcnt'
  have hexd' := step_exDone c r ready
  rw [C04.fires_pos _ _ _ hL] at hexd'
  have hseq' := step_seqCount c r ready
  have hfsm' := RefresherInv.step_fsm c r ready
  refine ⟨?_, ?_, ?_, ?_⟩
  · intro hfs
    simp only [hfs] at hf
    have hes : exStart r ready = (r.seqCount != 0) := by simp [exStart, hfs]
    have hwb : (r.fsm == Fsm.waitBm && ready) = false := by simp [hfs]
    rw [hes] at hcnt'; rw [hwb] at hseq'
    simp only [Bool.false_eq_true, if_false] at hseq'
    have hx := hexd hfs
    by_cases hsd : seqDone r = true
    · -- the last execution is over
      simp only [seqDone, Bool.and_eq_true, beq_iff_eq] at hsd
      have hc0 := hexd0 hsd.1
      have hW : Wd c r = 1 := by simp [Wd, hsd.2, hc0]
      cases hz : c.tZQCS with
      | none =>
        right; left
        refine ⟨?_, hW⟩
        rw [hfsm']; simp [fsmNext, hfs, seqDone, hsd.1, hsd.2, wantsZqcs, hz]
      | some z =>
        by_cases hwz : wantsZqcs c r = true
        · right; right
          refine ⟨by rw [hfsm']; simp [fsmNext, hfs, seqDone, hsd.1, hsd.2, hwz], hW, ?_⟩
          have hzs : zqStart c r = true := by simp [zqStart, hfs, seqDone, hsd.1, hsd.2, hwz]
          have := (step_zq_some c r ready z hz).1
          rw [hf.1, hzs, tl_zero _ _ (by have := hwf.tZQ z hz; omega)] at this
          simp [zqRem, zqLen, hz, this]
        · right; left
          refine ⟨?_, hW⟩
          rw [hfsm']; simp [fsmNext, hfs, seqDone, hsd.1, hsd.2, hwz]
    · left
      have hfs' : (Refresher.step c r ready).fsm = .doRefresh := by
        rw [hfsm']; simp [fsmNext, hfs, hsd]
      refine ⟨hfs', ?_⟩
      simp only [seqDone, Bool.and_eq_true, beq_iff_eq, not_and] at hsd
      simp only [Wd, M, hcnt', hseq']
      generalize c.tRP + c.tRFC = L at *
      generalize r.exCounter = cnt at *
      generalize r.seqCount = sq at *
      generalize r.exDone = ed at *
      clear hes hwb hfs hfsm' hexd' hseq' hcnt' hregs hf
      rcases sq with _ | k <;> cases ed <;> simp only [Nat.succ_mul, Nat.zero_mul, Nat.add_mul, Nat.one_mul] at * <;> grind
  · intro hfs
    simp only [hfs] at hf
    constructor
    · intro hr
      subst hr
      have hfs' : (Refresher.step c r true).fsm = .doRefresh := by rw [hfsm']; simp [fsmNext, hfs]
      refine ⟨hfs', ?_⟩
      have hes : exStart r true = true := by simp [exStart, hfs]
      rw [hes, hf.2.1] at hcnt'
      have hc1 : (Refresher.step c r true).exCounter = 1 := by
        rw [hcnt']; rw [if_neg (by omega)]; simp
      have hs1 : (Refresher.step c r true).seqCount = c.postponing - 1 := by rw [hseq']; simp [hfs]
      simp only [Wd, M, hc1, hs1]
      have e : (c.postponing - 1) * (c.tRP + c.tRFC + 1) + (c.tRP + c.tRFC + 1) = c.postponing * (c.tRP + c.tRFC + 1) := by
        have hpp : c.postponing = (c.postponing - 1) + 1 := by omega
        conv => rhs; rw [hpp, Nat.add_mul, Nat.one_mul]
      have : (1 : Nat) ≠ 0 := by omega
      simp only [ne_eq, this, not_false_eq_true, if_true]
      omega
    · intro hr; subst hr
      rw [hfsm']; simp [fsmNext, hfs]
  · intro hfs
    rw [hfsm']
    simp only [fsmNext, hfs]
    cases hh : (c.withRefresh && r.reqO)
    · left; simp
    · right; simp at hh; simp [hh.2]
  · intro hfs' hc0
    rw [hexd']
    rw [hcnt'] at hc0
    rw [hfsm'] at hfs'
    by_cases hcl : r.exCounter = c.tRP + c.tRFC
    · simp [hcl]
    · simp only [hcl, if_false] at hc0
      by_cases hz : r.exCounter = 0
      · simp only [hz, if_true] at hc0
        exfalso
        -- exCounter = 0, not started: then the FSM is not in DO-REFRESH afterwards
        have hns : exStart r ready = false := by cases hh : exStart r ready <;> simp [hh] at hc0 ⊢
        simp only [exStart, Bool.or_eq_false_iff, Bool.and_eq_false_iff] at hns
        have hsq : r.seqCount = 0 := by simpa using hns.2
        cases hfs : r.fsm with
        | idle => simp only [fsmNext, hfs] at hfs'; split at hfs' <;> cases hfs'
        | waitBm =>
          simp only [fsmNext, hfs] at hfs'
          rcases hns.1 with h1 | h1
          · simp [hfs] at h1
          · simp [h1] at hfs'
        | doRefresh =>
          have := hexd hfs hz
          simp [fsmNext, hfs, seqDone, this, hsq] at hfs'
          split at hfs' <;> cases hfs'
        | doZqcs => simp only [fsmNext, hfs] at hfs'; split at hfs' <;> cases hfs'
      · simp [hz] at hc0
theorem rf_zq_facts (c : Refresher.Cfg) (hwf : WF c) (r : Refresher.State) (pd ready : Bool) (h : Inv c r pd)
    (hzqd : r.fsm = .doZqcs → r.zqCounter = 0 → r.zqDone = true) :
    (r.fsm = .doZqcs →
      ((Refresher.step c r ready).fsm = .doZqcs ∧ zqRem c (Refresher.step c r ready) + 1 = zqRem c r) ∨
      (Refresher.step c r ready).fsm = .idle) ∧
    ((Refresher.step c r ready).fsm = .doZqcs → (Refresher.step c r ready).zqCounter = 0 → (Refresher.step c r ready).zqDone = true) := by
  obtain ⟨hcnt, hzcnt, hexcl, hregs, hexd0, hzqd0, hzn, hf⟩ := h
  have hrp := hwf.tRP
  have hfsm' := RefresherInv.step_fsm c r ready
  cases hz : c.tZQCS with
  | none =>
    have hn := hzn hz
    refine ⟨fun hfs => absurd hfs hn.2, ?_⟩
    intro hfs'
    rw [hfsm'] at hfs'
    exfalso
    cases hfs : r.fsm <;> simp only [fsmNext, hfs, wantsZqcs, hz] at hfs'
    · split at hfs' <;> cases hfs'
    · split at hfs' <;> cases hfs'
    · simp at hfs'; split at hfs' <;> cases hfs'
    · exact hn.2 hfs
  | some z =>
    have hz1 := hwf.tZQ z hz
    have hLz : c.tRP + z ≠ 0 := by omega
    obtain ⟨hzc', hzd'⟩ := step_zq_some c r ready z hz
    rw [hz] at hzcnt; simp only [Option.getD_some] at hzcnt
    rw [tl_next _ _ _ hLz hzcnt] at hzc'
    rw [C04.fires_pos _ _ _ hLz] at hzd'
    constructor
    · intro hfs
      have hzs : zqStart c r = false := by simp [zqStart, hfs]
      rw [hzs] at hzc'
      by_cases hd : r.zqDone = true
      · right; rw [hfsm']; simp [fsmNext, hfs, hd]
      · left
        have hne : r.zqCounter ≠ 0 := fun h0 => hd (hzqd hfs h0)
        refine ⟨by rw [hfsm']; simp [fsmNext, hfs, hd], ?_⟩
        simp only [zqRem, hz, hzc']
        by_cases hl : r.zqCounter = c.tRP + z
        · simp [hl]; omega
        · simp [hl, hne]; omega
    · intro hfs' hc0
      rw [hzd']
      rw [hzc'] at hc0
      by_cases hl : r.zqCounter = c.tRP + z
      · simp [hl]
      · simp only [hl, if_false] at hc0
        by_cases h0 : r.zqCounter = 0
        · simp only [h0, if_true] at hc0
          exfalso
          have hns : zqStart c r = false := by cases hh : zqStart c r <;> simp [hh] at hc0 ⊢
          rw [hfsm'] at hfs'
          cases hfs : r.fsm with
          | idle => simp only [fsmNext, hfs] at hfs'; split at hfs' <;> cases hfs'
          | waitBm => simp only [fsmNext, hfs] at hfs'; split at hfs' <;> cases hfs'
          | doRefresh =>
            simp only [fsmNext, hfs] at hfs'
            simp only [zqStart, hfs, beq_self_eq_true, Bool.true_and] at hns
            cases hsd : seqDone r <;> cases hw : wantsZqcs c r <;> simp [hsd, hw] at hfs' hns
          | doZqcs =>
            have := hzqd hfs h0
            simp [fsmNext, hfs, this] at hfs'
        · simp [h0] at hc0

/-! ### the request timer -/
theorem tr_step (c : Refresher.Cfg) (r : Refresher.State) (ready : Bool) (hp : r.postCount < c.postponing) (ht : r.timerCount < c.tREFI) :
    (Refresher.step c r ready).postCount < c.postponing ∧ (Refresher.step c r ready).timerCount < c.tREFI ∧
    ((Refresher.step c r ready).reqO = true ↔ Tr c r = 1) ∧
    (Tr c r = 1 → (Refresher.step c r ready).timerCount = c.tREFI - 1 ∧ (Refresher.step c r ready).postCount = c.postponing - 1) ∧
    (Tr c r ≠ 1 → Tr c (Refresher.step c r ready) + 1 = Tr c r) := by
  have htc := step_timerCount c r ready
  obtain ⟨hpc, hrq⟩ := step_post c r ready hp
  simp only [Tr, htc, hpc, hrq]
  generalize c.tREFI = T at *
  generalize c.postponing = P at *
  generalize r.timerCount = tm at *
  generalize r.postCount = pc at *
  rcases tm with _ | tm <;> rcases pc with _ | pc <;> simp [Nat.succ_mul, Nat.add_mul] <;> (try constructor) <;> (try omega)
  all_goals (try (constructor <;> (try omega)))
  all_goals (try (intro; omega))

/-! ### the composed controller: no refresh request is ever lost -/
open Controller CtlInv CtlLive

/-- cycles until the refresher is idle again (upper bound) -/
def epi (c : Controller.Cfg) (s : Controller.State) (w : Nat → Nat) : Nat :=
  match s.rf.fsm with
  | .idle => 0
  | .waitBm => (if s.fsm = .refresh then 0 else psi c s w) + 1 + c.rf.postponing * M c.rf + zqLen c.rf
  | .doRefresh => Wd c.rf s.rf + zqLen c.rf
  | .doZqcs => zqRem c.rf s.rf

/-- ghost waiting times of `CtlLive.LInv`: followed while the refresher waits, reset otherwise -/
def wG (c : Controller.Cfg) (s : Controller.State) (ins : Array BankIn) (w : Nat → Nat) : Nat → Nat :=
  if s.rf.fsm = .waitBm ∧ s.fsm ≠ .refresh then wStep c s ins w else fun _ => 0

/-- the configuration leaves room for one refresh episode between two requests of the postponer -/
def Budget (c : Controller.Cfg) : Prop :=
  psiMax c + 2 + c.rf.postponing * M c.rf + zqLen c.rf ≤ c.rf.postponing * c.rf.tREFI

theorem budgetCheck_sound (c : Controller.Cfg) (h : budgetCheck c = true) : Budget c := by
  simpa [budgetCheck, Budget] using h

/-- what `Budget` leaves over: an episode is finished this many cycles before the next request -/
def slack (c : Controller.Cfg) : Nat :=
  c.rf.postponing * c.rf.tREFI - (psiMax c + 2 + c.rf.postponing * M c.rf + zqLen c.rf)

structure NL (c : Controller.Cfg) (s : Controller.State) (g : Ghost) (w : Nat → Nat) : Prop where
  cinv : CInv c s g
  mok : MOk c s
  linv : s.rf.fsm = .waitBm → s.fsm ≠ .refresh → LInv c s w
  exd : s.rf.fsm = .doRefresh → s.rf.exCounter = 0 → s.rf.exDone = true
  zqd : s.rf.fsm = .doZqcs → s.rf.zqCounter = 0 → s.rf.zqDone = true
  rng : s.rf.postCount < c.rf.postponing ∧ s.rf.timerCount < c.rf.tREFI
  req : s.rf.reqO = true → Tr c.rf s.rf = c.rf.postponing * c.rf.tREFI
  main : epi c s w + (if s.rf.fsm = .idle then 0 else slack c) ≤ Tr c.rf s.rf
  lost : s.rf.reqO = true → s.rf.fsm = .idle

theorem Wd_pos (c : Refresher.Cfg) (r : Refresher.State) : 1 ≤ Wd c r := by simp only [Wd]; omega
theorem psi_pos (c : Controller.Cfg) (s : Controller.State) (w : Nat → Nat) : 1 ≤ psi c s w := by simp only [psi]; omega

theorem nl_step (c : Controller.Cfg) (hwf : CtlInv.WF c) (hb : Budget c) (s : Controller.State) (g : Ghost) (w : Nat → Nat)
    (ins : Array BankIn) (hins : InsOk c ins) (h : NL c s g w) :
    NL c (Controller.step c s ins).1 (gNext c s g ins) (wG c s ins w) := by
  have hci' := (cinv_step c hwf s g ins hins h.cinv).1
  have hk' := mok_step c s ins h.mok
  have hrdy : inRef s.rf.fsm = true → (s.fsm == .refresh) = true := fun hi => by simp [h.cinv.inRef hi]
  have hrfI := h.cinv.rf
  have hF := rf_step_facts c.rf hwf.rf s.rf g.pd (s.fsm == .refresh) hrfI h.exd h.zqd
  have hZ := rf_zq_facts c.rf hwf.rf s.rf g.pd (s.fsm == .refresh) hrfI h.zqd
  obtain ⟨hF1, hF2, hF3, hF4⟩ := hF
  obtain ⟨hZ1, hZ2⟩ := hZ
  obtain ⟨hT1, hT2, hT3, hT4, hT5⟩ := tr_step c.rf s.rf (s.fsm == .refresh) h.rng.1 h.rng.2
  have hP := hwf.rf.post
  have hMpos : 1 ≤ c.rf.postponing * M c.rf := by
    have : 1 ≤ M c.rf := by simp only [M]; omega
    exact Nat.mul_pos hP this
  have hPT : Tr c.rf s.rf = c.rf.postponing * c.rf.tREFI → 2 ≤ Tr c.rf s.rf := by
    intro e; unfold Budget at hb; omega
  -- the refresher of the next state
  have hrf' : (Controller.step c s ins).1.rf = Refresher.step c.rf s.rf (s.fsm == .refresh) := step_rf c s ins
  rw [← hrf'] at hF1 hF2 hF3 hF4 hZ1 hZ2 hT1 hT2 hT3 hT4 hT5
  -- LInv of the next state
  have hlinv' : (Controller.step c s ins).1.rf.fsm = .waitBm → (Controller.step c s ins).1.fsm ≠ .refresh →
      LInv c (Controller.step c s ins).1 (wG c s ins w) := by
    intro hw' hnr'
    cases hfs : s.rf.fsm with
    | idle =>
      have : wG c s ins w = fun _ => 0 := by simp [wG, hfs]
      rw [this]; exact linv_zero c _ hk'
    | waitBm =>
      by_cases hmr : s.fsm = .refresh
      · have := (hF2 hfs).1 (by simp [hmr])
        rw [this.1] at hw'; cases hw'
      · have hwg : wG c s ins w = wStep c s ins w := by simp [wG, hfs, hmr]
        rw [hwg]
        rcases live_step c s ins w (h.linv hfs hmr) hfs hmr with hr | ⟨hl, _, _⟩
        · exact absurd hr hnr'
        · exact hl
    | doRefresh =>
      rcases hF1 hfs with ⟨e, _⟩ | ⟨e, _⟩ | ⟨e, _⟩ <;> rw [e] at hw' <;> cases hw'
    | doZqcs =>
      rcases hZ1 hfs with ⟨e, _⟩ | e <;> rw [e] at hw' <;> cases hw'
  -- a request arriving now finds the refresher idle
  have hlost' : (Controller.step c s ins).1.rf.reqO = true → (Controller.step c s ins).1.rf.fsm = .idle := by
    intro hq
    have htr1 := hT3.mp hq
    have hm := h.main
    rw [htr1] at hm
    cases hfs : s.rf.fsm with
    | idle =>
      rcases hF3 hfs with e | ⟨_, hrq⟩
      · exact e
      · have := hPT (h.req hrq); omega
    | waitBm => simp only [epi, hfs, reduceCtorEq, if_false] at hm; omega
    | doRefresh =>
      simp only [epi, hfs, reduceCtorEq, if_false] at hm
      have hw1 := Wd_pos c.rf s.rf
      rcases hF1 hfs with ⟨_, e2⟩ | ⟨e, _⟩ | ⟨e1, _, _⟩
      · have := Wd_pos c.rf (Controller.step c s ins).1.rf; omega
      · exact e
      · cases hz : c.rf.tZQCS with
        | none =>
          have := (hci'.rf.zqNone hz).2
          exact absurd e1 this
        | some z =>
          have : 1 ≤ zqLen c.rf := by simp only [zqLen, hz]; omega
          omega
    | doZqcs =>
      simp only [epi, hfs, reduceCtorEq, if_false] at hm
      rcases hZ1 hfs with ⟨_, e2⟩ | e
      · have hz := hrfI.zqNone
        cases hzz : c.rf.tZQCS with
        | none => exact absurd hfs (hz hzz).2
        | some z =>
          have : 1 ≤ zqRem c.rf (Controller.step c s ins).1.rf := by simp only [zqRem, hzz]; omega
          omega
      · exact e
  refine ⟨hci', hk', hlinv', ?_, ?_, ?_, ?_, ?_, hlost'⟩
  · exact hF4
  · exact hZ2
  · exact ⟨hT1, hT2⟩
  · intro hq
    have htr1 := hT3.mp hq
    obtain ⟨e1, e2⟩ := hT4 htr1
    simp only [Tr, e1, e2]
    have hT : 1 ≤ c.rf.tREFI := by have := h.rng.2; omega
    have : c.rf.postponing = (c.rf.postponing - 1) + 1 := by omega
    conv => rhs; rw [this, Nat.add_mul, Nat.one_mul]
    omega
  · -- the episode ends before the next request, with `slack` to spare
    by_cases htr1 : Tr c.rf s.rf = 1
    · have hq : (Controller.step c s ins).1.rf.reqO = true := hT3.mpr htr1
      have := hlost' hq
      simp only [epi, this, if_true]; omega
    · have hdec := hT5 htr1
      have hm := h.main
      cases hfs : s.rf.fsm with
      | idle =>
        rcases hF3 hfs with e | ⟨e, hrq⟩
        · simp only [epi, e, if_true]; omega
        · -- a new episode starts
          have hreq := h.req hrq
          have hle := psi_le c (Controller.step c s ins).1 (wG c s ins w) hk'
          simp only [epi, e, reduceCtorEq, if_false, slack]
          unfold Budget at hb
          split <;> omega
      | waitBm =>
        simp only [epi, hfs, reduceCtorEq, if_false] at hm
        by_cases hmr : s.fsm = .refresh
        · obtain ⟨e1, e2⟩ := (hF2 hfs).1 (by simp [hmr])
          simp only [epi, e1, e2, reduceCtorEq, if_false]
          simp only [hmr, if_true] at hm
          omega
        · have e1 := (hF2 hfs).2 (by simp [hmr])
          simp only [hmr, if_false] at hm
          have hwg : wG c s ins w = wStep c s ins w := by simp [wG, hfs, hmr]
          have hp1 := psi_pos c s w
          simp only [epi, e1, hwg, reduceCtorEq, if_false]
          rcases live_step c s ins w (h.linv hfs hmr) hfs hmr with hr | ⟨_, _, hd⟩
          · simp only [hr, if_true]; omega
          · split <;> omega
      | doRefresh =>
        simp only [epi, hfs, reduceCtorEq, if_false] at hm
        rcases hF1 hfs with ⟨e1, e2⟩ | ⟨e1, _⟩ | ⟨e1, e2, e3⟩
        · simp only [epi, e1, reduceCtorEq, if_false]; omega
        · simp only [epi, e1, if_true]; omega
        · simp only [epi, e1, e3, reduceCtorEq, if_false]; omega
      | doZqcs =>
        simp only [epi, hfs, reduceCtorEq, if_false] at hm
        rcases hZ1 hfs with ⟨e1, e2⟩ | e1
        · simp only [epi, e1, reduceCtorEq, if_false]; omega
        · simp only [epi, e1, if_true]; omega

theorem nl_init (c : Controller.Cfg) (hwf : CtlInv.WF c) : NL c (Controller.init c) g0 (fun _ => 0) := by
  have hP := hwf.rf.post
  have hT := hwf.rf.phantom
  refine ⟨cinv_init c hwf, mok_init c hwf.nbm, ?_, ?_, ?_, ?_, ?_, ?_, ?_⟩
  · intro h; simp [Controller.init, Refresher.init] at h
  · intro h; simp [Controller.init, Refresher.init] at h
  · intro h; simp [Controller.init, Refresher.init] at h
  · simp only [Controller.init, Refresher.init]; omega
  · intro h; simp [Controller.init, Refresher.init] at h
  · simp [epi, Controller.init, Refresher.init]
  · intro h; simp [Controller.init, Refresher.init] at h

/-- the ghosts along a run -/
def runG (c : Controller.Cfg) : Controller.State → Ghost → (Nat → Nat) → List (Array BankIn) → Controller.State × Ghost × (Nat → Nat)
  | s, g, w, [] => (s, g, w)
  | s, g, w, ins :: rest => runG c (Controller.step c s ins).1 (gNext c s g ins) (wG c s ins w) rest

theorem runG_state (c : Controller.Cfg) (inputs : List (Array BankIn)) : ∀ s g w, (runG c s g w inputs).1 = CtlLive.runCtl c s inputs := by
  induction inputs with
  | nil => intro s g w; rfl
  | cons i rest ih => intro s g w; simp only [runG, CtlLive.runCtl, List.foldl]; exact ih _ _ _

theorem nl_run (c : Controller.Cfg) (hwf : CtlInv.WF c) (hb : Budget c) (inputs : List (Array BankIn)) :
    ∀ s g w, NL c s g w → (∀ ins ∈ inputs, InsOk c ins) →
      NL c (runG c s g w inputs).1 (runG c s g w inputs).2.1 (runG c s g w inputs).2.2 := by
  induction inputs with
  | nil => intro s g w h _; exact h
  | cons i rest ih =>
    intro s g w h hins
    exact ih _ _ _ (nl_step c hwf hb s g w i (hins i (by simp)) h) (fun x hx => hins x (by simp [hx]))

/-! ### counting: every request is followed by `postponing` auto-refresh commands -/
/-- the multiplexer takes an AUTO REFRESH from the refresher in this cycle (it is on the DFI pins one cycle later, C02) -/
def refAcc (c : Controller.Cfg) (s : Controller.State) : Bool :=
  (roOf c s).valid && (s.fsm == .refresh) && s.rf.cas && s.rf.ras && !s.rf.we

/-- refreshes the current episode will still issue -/
def owed (c : Refresher.Cfg) (r : Refresher.State) : Nat :=
  match r.fsm with
  | .idle => 0
  | .waitBm => c.postponing
  | .doRefresh => r.seqCount + (if 1 ≤ r.exCounter ∧ r.exCounter ≤ c.tRP + 1 then 1 else 0)
  | .doZqcs => 0

theorem refAcc_iff (c : Controller.Cfg) (hwf : CtlInv.WF c) (s : Controller.State) (g : Ghost) (h : CInv c s g) :
    refAcc c s = true ↔ (s.rf.fsm = .doRefresh ∧ s.rf.exCounter = c.rf.tRP + 1) := by
  have hI := h.rf
  have hrp := hwf.rf.tRP
  have hregs := hI.regs
  constructor
  · intro ha
    simp only [refAcc, Bool.and_eq_true, beq_iff_eq, Bool.not_eq_true'] at ha
    obtain ⟨⟨⟨⟨hv, hm⟩, hcas⟩, hras⟩, hwe⟩ := ha
    have hexp : expected c.rf s.rf = .ref := by
      cases he : expected c.rf s.rf <;> rw [he] at hregs <;> simp only [regsAre] at hregs
      all_goals (rw [hregs.1] at hcas; cases hcas)
    have hf := hI.fsmI
    cases hfs : s.rf.fsm with
    | idle => have := (h.idle hfs).1; exact absurd hm this
    | waitBm =>
      simp only [hfs] at hf
      simp [expected, hf.1, hf.2.1] at hexp
    | doRefresh =>
      simp only [hfs] at hf
      refine ⟨rfl, ?_⟩
      simp only [expected, hf.1] at hexp
      have : ¬ (0 = 1) := by omega
      have h2 : ¬ (0 = c.rf.tRP + 1) := by omega
      simp only [this, h2, if_false] at hexp
      split at hexp
      · cases hexp
      · split at hexp
        · assumption
        · cases hexp
    | doZqcs =>
      simp only [hfs] at hf
      simp only [expected, hf.1] at hexp
      split at hexp
      · cases hexp
      · split at hexp
        · cases hexp
        · have : ¬ (0 = 1) := by omega
          have h2 : ¬ (0 = c.rf.tRP + 1) := by omega
          simp [this, h2] at hexp
  · rintro ⟨hfs, hx⟩
    have hf := hI.fsmI
    simp only [hfs] at hf
    have hexp : expected c.rf s.rf = .ref := by
      simp only [expected, hf.1, hx]
      have : ¬ (0 = 1) := by omega
      have h2 : ¬ (0 = c.rf.tRP + 1) := by omega
      have h3 : ¬ (c.rf.tRP + 1 = 1) := by omega
      simp [this, h2, h3]; omega
    rw [hexp] at hregs
    simp only [regsAre] at hregs
    have hm : s.fsm = .refresh := h.inRef (by simp [inRef, hfs])
    have hnd : s.rf.exDone = false := by
      cases hd : s.rf.exDone
      · rfl
      · have := hI.exDone0 hd; omega
    have hv : (roOf c s).valid = true := by
      simp [roOf, Refresher.out, hfs, seqDone, hnd]
    simp [refAcc, hv, hm, hregs.1, hregs.2.1, hregs.2.2]

theorem owed_step (c : Refresher.Cfg) (hwf : RefresherInv.WF c) (r : Refresher.State) (pd ready : Bool) (h : Inv c r pd)
    (hexd : r.fsm = .doRefresh → r.exCounter = 0 → r.exDone = true) (hwr : c.withRefresh = true)
    (hlost : r.reqO = true → r.fsm = .idle) :
    owed c (Refresher.step c r ready) + (if r.fsm = .doRefresh ∧ r.exCounter = c.tRP + 1 then 1 else 0) =
      owed c r + (if r.reqO then c.postponing else 0) := by
  obtain ⟨hcnt, hzcnt, hexcl, hregs, hexd0, hzqd0, hzn, hf⟩ := h
  have hrp := hwf.tRP; have hrfc := hwf.tRFC; have hP := hwf.post
  have hL : c.tRP + c.tRFC ≠ 0 := by omega
  have hcnt' := step_exCounter c r ready
  rw [tl_next _ _ _ hL hcnt] at hcnt'
  have hseq' := step_seqCount c r ready
  have hfsm' := RefresherInv.step_fsm c r ready
  cases hfs : r.fsm with
  | idle =>
    cases hq : r.reqO
    · simp [owed, hfsm', RefresherInv.fsmNext, hfs, hq]
    · simp [owed, hfsm', RefresherInv.fsmNext, hfs, hq, hwr]
  | waitBm =>
    have hq : r.reqO = false := by
      cases hq : r.reqO
      · rfl
      · have := hlost hq; rw [hfs] at this; cases this
    simp only [hfs] at hf
    cases ready
    · simp [owed, hfsm', RefresherInv.fsmNext, hfs, hq]
    · have hes : exStart r true = true := by simp [exStart, hfs]
      rw [hes, hf.2.1] at hcnt'
      have hc1 : (Refresher.step c r true).exCounter = 1 := by rw [hcnt']; rw [if_neg (by omega)]; simp
      have hs1 : (Refresher.step c r true).seqCount = c.postponing - 1 := by rw [hseq']; simp [hfs]
      simp [owed, hfsm', RefresherInv.fsmNext, hfs, hq, hc1, hs1]; omega
  | doRefresh =>
    have hq : r.reqO = false := by
      cases hq : r.reqO
      · rfl
      · have := hlost hq; rw [hfs] at this; cases this
    have hes : exStart r ready = (r.seqCount != 0) := by simp [exStart, hfs]
    have hwb : (r.fsm == Fsm.waitBm && ready) = false := by simp [hfs]
    rw [hes] at hcnt'; rw [hwb] at hseq'
    simp only [Bool.false_eq_true, if_false] at hseq'
    have hx := hexd hfs
    by_cases hsd : seqDone r = true
    · simp only [seqDone, Bool.and_eq_true, beq_iff_eq] at hsd
      have hc0 := hexd0 hsd.1
      have hne : ¬ (0 = c.tRP + 1) := by omega
      cases hwz : wantsZqcs c r <;>
        simp [owed, hfsm', RefresherInv.fsmNext, hfs, hq, seqDone, hsd.1, hsd.2, hwz, hc0, hne]
    · have hfs' : (Refresher.step c r ready).fsm = .doRefresh := by rw [hfsm']; simp [RefresherInv.fsmNext, hfs, hsd]
      simp only [seqDone, Bool.and_eq_true, beq_iff_eq, not_and] at hsd
      simp only [owed, hfs', hcnt', hseq', hq, hfs]
      have hLge : c.tRP + 1 ≤ c.tRP + c.tRFC := by omega
      generalize c.tRP + c.tRFC = L at *
      generalize r.exCounter = cnt at *
      generalize r.seqCount = sq at *
      generalize r.exDone = ed at *
      clear hes hwb hfsm' hseq' hcnt' hregs hf hfs'
      rcases sq with _ | k <;> cases ed <;> simp at * <;> grind
  | doZqcs =>
    have hq : r.reqO = false := by
      cases hq : r.reqO
      · rfl
      · have := hlost hq; rw [hfs] at this; cases this
    cases hd : r.zqDone <;> simp [owed, hfsm', RefresherInv.fsmNext, hfs, hq, hd]

/-- AUTO REFRESH commands taken from the refresher during a run -/
def refCount (c : Controller.Cfg) : Controller.State → List (Array BankIn) → Nat
  | _, [] => 0
  | s, i :: rest => (if refAcc c s then 1 else 0) + refCount c (Controller.step c s i).1 rest

/-- accounting: `n` refreshes issued, `q` requests raised, `t` cycles elapsed -/
structure Acct (c : Controller.Cfg) (s : Controller.State) (n q t : Nat) : Prop where
  cnt : n + owed c.rf s.rf + (if s.rf.reqO then c.rf.postponing else 0) = c.rf.postponing * q
  time : t + Tr c.rf s.rf = (q + 1) * (c.rf.postponing * c.rf.tREFI)
  le : owed c.rf s.rf + (if s.rf.reqO then c.rf.postponing else 0) ≤ c.rf.postponing

theorem acct_step (c : Controller.Cfg) (hwf : CtlInv.WF c) (hb : Budget c) (hwr : c.rf.withRefresh = true)
    (s : Controller.State) (g : Ghost) (w : Nat → Nat) (ins : Array BankIn) (hins : InsOk c ins) (h : NL c s g w)
    (n q t : Nat) (ha : Acct c s n q t) :
    Acct c (Controller.step c s ins).1 (n + if refAcc c s then 1 else 0) (q + if Tr c.rf s.rf = 1 then 1 else 0) (t + 1) := by
  have h' := nl_step c hwf hb s g w ins hins h
  have hrf' : (Controller.step c s ins).1.rf = Refresher.step c.rf s.rf (s.fsm == .refresh) := step_rf c s ins
  obtain ⟨hT1, hT2, hT3, hT4, hT5⟩ := tr_step c.rf s.rf (s.fsm == .refresh) h.rng.1 h.rng.2
  rw [← hrf'] at hT1 hT2 hT3 hT4 hT5
  have ho := owed_step c.rf hwf.rf s.rf g.pd (s.fsm == .refresh) h.cinv.rf h.exd hwr h.lost
  rw [← hrf'] at ho
  have hra := refAcc_iff c hwf s g h.cinv
  have hind : (if refAcc c s then 1 else 0) = (if s.rf.fsm = .doRefresh ∧ s.rf.exCounter = c.rf.tRP + 1 then 1 else 0) := by
    by_cases hx : s.rf.fsm = .doRefresh ∧ s.rf.exCounter = c.rf.tRP + 1
    · rw [if_pos hx, if_pos (hra.mpr hx)]
    · rw [if_neg hx]
      have : refAcc c s = false := by
        cases hh : refAcc c s
        · rfl
        · exact absurd (hra.mp hh) hx
      simp [this]
  obtain ⟨hc, htm, hle⟩ := ha
  refine ⟨?_, ?_, ?_⟩
  · rw [hind]
    by_cases htr : Tr c.rf s.rf = 1
    · have hq' := hT3.mpr htr
      rw [hq']; simp only [htr, if_true]
      rw [Nat.mul_add, Nat.mul_one]; omega
    · have hq' : (Controller.step c s ins).1.rf.reqO = false := by
        cases hh : (Controller.step c s ins).1.rf.reqO
        · rfl
        · exact absurd (hT3.mp hh) htr
      rw [hq']; simp only [htr, if_false, Nat.add_zero]
      simp only [Bool.false_eq_true, if_false]; omega
  · by_cases htr : Tr c.rf s.rf = 1
    · have hq' := hT3.mpr htr
      have := h'.req hq'
      simp only [htr, if_true]
      rw [this]
      rw [htr] at htm
      have e : (q + 1 + 1) * (c.rf.postponing * c.rf.tREFI) = (q + 1) * (c.rf.postponing * c.rf.tREFI) + c.rf.postponing * c.rf.tREFI := by
        rw [Nat.add_mul (q + 1) 1, Nat.one_mul]
      rw [e]; omega
    · have := hT5 htr
      simp only [htr, if_false, Nat.add_zero]; omega
  · cases hq' : (Controller.step c s ins).1.rf.reqO
    · simp only [Bool.false_eq_true, if_false]; omega
    · have := h'.lost hq'
      simp [owed, this]

theorem acct_run (c : Controller.Cfg) (hwf : CtlInv.WF c) (hb : Budget c) (hwr : c.rf.withRefresh = true)
    (inputs : List (Array BankIn)) :
    ∀ s g w n q t, NL c s g w → Acct c s n q t → (∀ ins ∈ inputs, InsOk c ins) →
      ∃ q', Acct c (CtlLive.runCtl c s inputs) (n + refCount c s inputs) q' (t + inputs.length) := by
  induction inputs with
  | nil => intro s g w n q t _ ha _; exact ⟨q, by simpa [refCount, CtlLive.runCtl] using ha⟩
  | cons i rest ih =>
    intro s g w n q t h ha hins
    have h' := nl_step c hwf hb s g w i (hins i (by simp)) h
    have ha' := acct_step c hwf hb hwr s g w i (hins i (by simp)) h n q t ha
    obtain ⟨q', hq'⟩ := ih _ _ _ _ _ _ h' ha' (fun x hx => hins x (by simp [hx]))
    refine ⟨q', ?_⟩
    have e1 : n + refCount c s (i :: rest) = n + (if refAcc c s then 1 else 0) + refCount c (Controller.step c s i).1 rest := by
      simp only [refCount]; omega
    have e2 : t + (i :: rest).length = t + 1 + rest.length := by simp only [List.length_cons]; omega
    rw [e1, e2]
    simpa [CtlLive.runCtl] using hq'

/-- an episode that still owes `owed` refreshes lasts at least `(owed − 1)·M + 1` more cycles -/
theorem epi_ge_owed (c : Controller.Cfg) (hwf : CtlInv.WF c) (s : Controller.State) (w : Nat → Nat) (ho : 1 ≤ owed c.rf s.rf) :
    (owed c.rf s.rf - 1) * M c.rf + 1 ≤ epi c s w := by
  have hP := hwf.rf.post
  cases hfs : s.rf.fsm with
  | idle => simp [owed, hfs] at ho
  | doZqcs => simp [owed, hfs] at ho
  | waitBm =>
    simp only [owed, epi, hfs]
    have : (c.rf.postponing - 1) * M c.rf ≤ c.rf.postponing * M c.rf := Nat.mul_le_mul_right _ (by omega)
    omega
  | doRefresh =>
    simp only [owed, epi, hfs, Wd]
    have h1 : (s.rf.seqCount + (if 1 ≤ s.rf.exCounter ∧ s.rf.exCounter ≤ c.rf.tRP + 1 then 1 else 0) - 1) ≤ s.rf.seqCount := by
      split <;> omega
    have := Nat.mul_le_mul_right (M c.rf) h1
    omega

/-- while the refresher is not idle, the bound on the rest of the episode goes down on every clock edge -/
theorem epi_dec (c : Controller.Cfg) (hwf : CtlInv.WF c) (s : Controller.State) (g : Ghost) (w : Nat → Nat)
    (ins : Array BankIn) (h : NL c s g w) (hni : s.rf.fsm ≠ .idle) :
    epi c (Controller.step c s ins).1 (wG c s ins w) + 1 ≤ epi c s w := by
  have hrfI := h.cinv.rf
  obtain ⟨hF1, hF2, hF3, hF4⟩ := rf_step_facts c.rf hwf.rf s.rf g.pd (s.fsm == .refresh) hrfI h.exd h.zqd
  obtain ⟨hZ1, hZ2⟩ := rf_zq_facts c.rf hwf.rf s.rf g.pd (s.fsm == .refresh) hrfI h.zqd
  have hrf' : (Controller.step c s ins).1.rf = Refresher.step c.rf s.rf (s.fsm == .refresh) := step_rf c s ins
  rw [← hrf'] at hF1 hF2 hF3 hF4 hZ1 hZ2
  cases hfs : s.rf.fsm with
  | idle => exact absurd hfs hni
  | waitBm =>
    by_cases hmr : s.fsm = .refresh
    · obtain ⟨e1, e2⟩ := (hF2 hfs).1 (by simp [hmr])
      simp only [epi, e1, e2, hfs, hmr, if_true]; omega
    · have e1 := (hF2 hfs).2 (by simp [hmr])
      have hwg : wG c s ins w = wStep c s ins w := by simp [wG, hfs, hmr]
      have hp1 := psi_pos c s w
      simp only [epi, e1, hwg, hfs, hmr, if_false]
      rcases live_step c s ins w (h.linv hfs hmr) hfs hmr with hr | ⟨_, _, hd⟩
      · simp only [hr, if_true]; omega
      · split <;> omega
  | doRefresh =>
    rcases hF1 hfs with ⟨e1, e2⟩ | ⟨e1, e2⟩ | ⟨e1, e2, e3⟩
    · simp only [epi, e1, hfs]; omega
    · simp only [epi, e1, hfs]; omega
    · simp only [epi, e1, e3, hfs]; omega
  | doZqcs =>
    rcases hZ1 hfs with ⟨e1, e2⟩ | e1
    · simp only [epi, e1, hfs]; omega
    · simp only [epi, e1, hfs]
      have hz := hrfI.zqNone
      cases hzz : c.rf.tZQCS with
      | none => exact absurd hfs (hz hzz).2
      | some z => simp only [zqRem, hzz]; omega

/-- the refresher is back in IDLE within `epi` cycles -/
theorem reach_idle (c : Controller.Cfg) (hwf : CtlInv.WF c) (hb : Budget c) (inputs : List (Array BankIn)) :
    ∀ (s : Controller.State) (g : Ghost) (w : Nat → Nat), NL c s g w → (∀ ins ∈ inputs, InsOk c ins) → epi c s w ≤ inputs.length →
      ∃ k, k ≤ epi c s w ∧ (CtlLive.runCtl c s (inputs.take k)).rf.fsm = .idle := by
  induction inputs with
  | nil =>
    intro s g w h _ hlen
    by_cases hi : s.rf.fsm = .idle
    · exact ⟨0, Nat.zero_le _, by simpa [CtlLive.runCtl] using hi⟩
    · exfalso
      simp only [List.length_nil] at hlen
      cases hfs : s.rf.fsm <;> simp only [epi, hfs, Wd, zqRem] at hlen
      · exact hi hfs
      · omega
      · omega
      · have hz := h.cinv.rf.zqNone
        cases hzz : c.rf.tZQCS with
        | none => exact absurd hfs (hz hzz).2
        | some z => simp only [hzz] at hlen; omega
  | cons ins rest ih =>
    intro s g w h hins hlen
    by_cases hi : s.rf.fsm = .idle
    · exact ⟨0, Nat.zero_le _, by simpa [CtlLive.runCtl] using hi⟩
    · have hd := epi_dec c hwf s g w ins h hi
      have h' := nl_step c hwf hb s g w ins (hins ins (by simp)) h
      simp only [List.length_cons] at hlen
      obtain ⟨k, hk, hkf⟩ := ih _ _ _ h' (fun x hx => hins x (by simp [hx])) (by omega)
      exact ⟨k + 1, by omega, by simpa [CtlLive.runCtl] using hkf⟩

/-! ### ZQ calibration -/
/-- a ZQ calibration is due: the calibration timer has expired (now or earlier) and no calibration was started since -/
def zqDue (r : Refresher.State) : Bool := zqTimerDone r || r.zqPending

theorem zq_due_step (c : Refresher.Cfg) (r : Refresher.State) (ready : Bool) (z : Nat) (hz : c.tZQCS = some z)
    (hd : zqDue r = true) (hns : zqStart c r = false) : zqDue (Refresher.step c r ready) = true := by
  have : (Refresher.step c r ready).zqPending = (if zqStart c r then false else if zqTimerDone r then true else r.zqPending) := by
    simp [Refresher.step, hz, zqStart]
  simp only [zqDue, this, hns, Bool.false_eq_true, if_false]
  simp only [zqDue, Bool.or_eq_true] at hd
  rcases hd with h | h
  · simp [h]
  · cases zqTimerDone r <;> simp [h]

/-- the multiplexer takes a ZQ CALIBRATION (short) from the refresher in this cycle -/
def zqAcc (c : Controller.Cfg) (s : Controller.State) : Bool :=
  (roOf c s).valid && (s.fsm == .refresh) && s.rf.we && !s.rf.ras && !s.rf.cas

theorem zqAcc_of (c : Controller.Cfg) (hwf : CtlInv.WF c) (s : Controller.State) (g : Ghost) (h : CInv c s g)
    (hfs : s.rf.fsm = .doZqcs) (hx : s.rf.zqCounter = c.rf.tRP + 1) : zqAcc c s = true := by
  have hI := h.rf
  have hrp := hwf.rf.tRP
  have hregs := hI.regs
  have hexp : expected c.rf s.rf = .zqc := by
    simp only [expected, hx]
    have h3 : ¬ (c.rf.tRP + 1 = 1) := by omega
    simp [h3]; omega
  rw [hexp] at hregs
  simp only [regsAre] at hregs
  have hm : s.fsm = .refresh := h.inRef (by simp [inRef, hfs])
  have hnd : s.rf.zqDone = false := by
    cases hd : s.rf.zqDone
    · rfl
    · have := hI.zqDone0 hd; omega
  have hv : (roOf c s).valid = true := by simp [roOf, Refresher.out, hfs, hnd]
  simp [zqAcc, hv, hm, hregs.1, hregs.2.1, hregs.2.2]

def zA (c : Controller.Cfg) : Nat := psiMax c + 1 + c.rf.postponing * M c.rf + c.rf.tRP + 3

/-- bound on the cycles until a due ZQ calibration command is taken by the multiplexer -/
def zpot (c : Controller.Cfg) (s : Controller.State) (w : Nat → Nat) : Nat :=
  match s.rf.fsm with
  | .idle => (if s.rf.reqO then 0 else Tr c.rf s.rf) + zA c
  | .waitBm => (if s.fsm = .refresh then 0 else psi c s w) + 1 + c.rf.postponing * M c.rf + (c.rf.tRP + 2)
  | .doRefresh => Wd c.rf s.rf + (c.rf.tRP + 1)
  | .doZqcs =>
    if 1 ≤ s.rf.zqCounter ∧ s.rf.zqCounter ≤ c.rf.tRP + 1 then c.rf.tRP + 1 - s.rf.zqCounter
    else zqRem c.rf s.rf + c.rf.postponing * c.rf.tREFI + zA c + 1

/-- a calibration is due, or its command sequence is already running and the ZQC command is still to come -/
def zD (c : Controller.Cfg) (s : Controller.State) : Prop :=
  zqDue s.rf = true ∨ (s.rf.fsm = .doZqcs ∧ 1 ≤ s.rf.zqCounter ∧ s.rf.zqCounter ≤ c.rf.tRP + 1)

theorem zq_step (c : Controller.Cfg) (hwf : CtlInv.WF c) (hb : Budget c) (hwr : c.rf.withRefresh = true) (z : Nat)
    (hz : c.rf.tZQCS = some z) (s : Controller.State) (g : Ghost) (w : Nat → Nat) (ins : Array BankIn) (hins : InsOk c ins)
    (h : NL c s g w) (hd : zD c s) (hna : zqAcc c s = false) :
    zD c (Controller.step c s ins).1 ∧ zpot c (Controller.step c s ins).1 (wG c s ins w) + 1 ≤ zpot c s w := by
  have h' := nl_step c hwf hb s g w ins hins h
  have hrfI := h.cinv.rf
  obtain ⟨hF1, hF2, hF3, hF4⟩ := rf_step_facts c.rf hwf.rf s.rf g.pd (s.fsm == .refresh) hrfI h.exd h.zqd
  obtain ⟨hZ1, hZ2⟩ := rf_zq_facts c.rf hwf.rf s.rf g.pd (s.fsm == .refresh) hrfI h.zqd
  obtain ⟨hT1, hT2, hT3, hT4, hT5⟩ := tr_step c.rf s.rf (s.fsm == .refresh) h.rng.1 h.rng.2
  have hrf' : (Controller.step c s ins).1.rf = Refresher.step c.rf s.rf (s.fsm == .refresh) := step_rf c s ins
  have hfsm' := RefresherInv.step_fsm c.rf s.rf (s.fsm == .refresh)
  obtain ⟨hzc', hzd'⟩ := step_zq_some c.rf s.rf (s.fsm == .refresh) z hz
  have hz1 := hwf.rf.tZQ z hz
  have hrp := hwf.rf.tRP
  have hLz : c.rf.tRP + z ≠ 0 := by omega
  have hzcnt := hrfI.zcntLe
  rw [hz] at hzcnt; simp only [Option.getD_some] at hzcnt
  rw [tl_next _ _ _ hLz hzcnt] at hzc'
  rw [← hrf'] at hF1 hF2 hF3 hF4 hZ1 hZ2 hT1 hT2 hT3 hT4 hT5 hfsm' hzc' hzd'
  have hP := hwf.rf.post
  have hdue' : zqDue s.rf = true → zqStart c.rf s.rf = false → zqDue (Controller.step c s ins).1.rf = true := by
    intro a b; rw [hrf']; exact zq_due_step c.rf s.rf _ z hz a b
  have hTr' : Tr c.rf (Controller.step c s ins).1.rf ≤ c.rf.postponing * c.rf.tREFI := by
    have h1 := h'.rng.1; have h2 := h'.rng.2
    simp only [Tr]
    have : (Controller.step c s ins).1.rf.postCount * c.rf.tREFI ≤ (c.rf.postponing - 1) * c.rf.tREFI := Nat.mul_le_mul_right _ (by omega)
    have e : c.rf.postponing * c.rf.tREFI = (c.rf.postponing - 1) * c.rf.tREFI + c.rf.tREFI := by
      have : c.rf.postponing = (c.rf.postponing - 1) + 1 := by omega
      conv => lhs; rw [this, Nat.add_mul, Nat.one_mul]
    omega
  cases hfs : s.rf.fsm with
  | idle =>
    have hdu : zqDue s.rf = true := by
      rcases hd with a | ⟨a, _⟩
      · exact a
      · rw [hfs] at a; cases a
    have hns : zqStart c.rf s.rf = false := by simp [zqStart, hfs]
    refine ⟨Or.inl (hdue' hdu hns), ?_⟩
    cases hq : s.rf.reqO with
    | true =>
      have e : (Controller.step c s ins).1.rf.fsm = .waitBm := by rw [hfsm']; simp [RefresherInv.fsmNext, hfs, hq, hwr]
      have hle := psi_le c (Controller.step c s ins).1 (wG c s ins w) h'.mok
      simp only [zpot, e, hfs, hq, if_true, zA]
      split <;> omega
    | false =>
      have e : (Controller.step c s ins).1.rf.fsm = .idle := by rw [hfsm']; simp [RefresherInv.fsmNext, hfs, hq]
      simp only [zpot, e, hfs, hq, Bool.false_eq_true, if_false]
      by_cases htr : Tr c.rf s.rf = 1
      · rw [hT3.mpr htr, htr]; simp only [if_true]; omega
      · have := hT5 htr
        cases hq' : (Controller.step c s ins).1.rf.reqO
        · simp only [Bool.false_eq_true, if_false]; omega
        · exact absurd (hT3.mp hq') htr
  | waitBm =>
    have hdu : zqDue s.rf = true := by
      rcases hd with a | ⟨a, _⟩
      · exact a
      · rw [hfs] at a; cases a
    have hns : zqStart c.rf s.rf = false := by simp [zqStart, hfs]
    refine ⟨Or.inl (hdue' hdu hns), ?_⟩
    by_cases hmr : s.fsm = .refresh
    · obtain ⟨e1, e2⟩ := (hF2 hfs).1 (by simp [hmr])
      simp only [zpot, e1, e2, hfs, hmr, if_true]; omega
    · have e1 := (hF2 hfs).2 (by simp [hmr])
      have hwg : wG c s ins w = wStep c s ins w := by simp [wG, hfs, hmr]
      have hp1 := psi_pos c s w
      simp only [zpot, e1, hwg, hfs, hmr, if_false]
      rcases live_step c s ins w (h.linv hfs hmr) hfs hmr with hr | ⟨_, _, hdd⟩
      · simp only [hr, if_true]; omega
      · split <;> omega
  | doRefresh =>
    have hdu : zqDue s.rf = true := by
      rcases hd with a | ⟨a, _⟩
      · exact a
      · rw [hfs] at a; cases a
    have hzc0 : s.rf.zqCounter = 0 := by have := hrfI.fsmI; simp only [hfs] at this; exact this.1
    by_cases hsd : seqDone s.rf = true
    · -- the sequence is over and a calibration is due: DO-ZQCS, counter 1
      have hw : wantsZqcs c.rf s.rf = true := by
        simp only [wantsZqcs, hz, Option.isSome_some, Bool.true_and]; exact hdu
      have e : (Controller.step c s ins).1.rf.fsm = .doZqcs := by rw [hfsm']; simp [RefresherInv.fsmNext, hfs, hsd, hw]
      have hzs : zqStart c.rf s.rf = true := by simp [zqStart, hfs, hsd, hw]
      have e2 : (Controller.step c s ins).1.rf.zqCounter = 1 := by rw [hzc', hzc0, hzs]; simp; omega
      have hW := Wd_pos c.rf s.rf
      refine ⟨Or.inr ⟨e, by omega, by omega⟩, ?_⟩
      simp only [zpot, e, e2, hfs]
      have : 1 ≤ 1 ∧ 1 ≤ c.rf.tRP + 1 := ⟨Nat.le_refl _, by omega⟩
      rw [if_pos this]; omega
    · have e : (Controller.step c s ins).1.rf.fsm = .doRefresh := by rw [hfsm']; simp [RefresherInv.fsmNext, hfs, hsd]
      have hns : zqStart c.rf s.rf = false := by simp [zqStart, hfs, hsd]
      refine ⟨Or.inl (hdue' hdu hns), ?_⟩
      rcases hF1 hfs with ⟨_, e2⟩ | ⟨e1, _⟩ | ⟨e1, _, _⟩
      · simp only [zpot, e, hfs]; omega
      · rw [e] at e1; cases e1
      · rw [e] at e1; cases e1
  | doZqcs =>
    have hns : zqStart c.rf s.rf = false := by simp [zqStart, hfs]
    by_cases hin : 1 ≤ s.rf.zqCounter ∧ s.rf.zqCounter ≤ c.rf.tRP + 1
    · -- the ZQC command is still to come
      have hne : s.rf.zqCounter ≠ c.rf.tRP + 1 := fun e => by
        rw [zqAcc_of c hwf s g h.cinv hfs e] at hna; cases hna
      have hnd : s.rf.zqDone = false := by
        cases hdn : s.rf.zqDone
        · rfl
        · have := hrfI.zqDone0 hdn; omega
      have e : (Controller.step c s ins).1.rf.fsm = .doZqcs := by rw [hfsm']; simp [RefresherInv.fsmNext, hfs, hnd]
      have e2 : (Controller.step c s ins).1.rf.zqCounter = s.rf.zqCounter + 1 := by
        rw [hzc']
        have h1 : ¬ s.rf.zqCounter = c.rf.tRP + z := by omega
        have h2 : ¬ s.rf.zqCounter = 0 := by omega
        simp [h1, h2]
      refine ⟨Or.inr ⟨e, by omega, by omega⟩, ?_⟩
      simp only [zpot, e, e2, hfs]
      have h3 : 1 ≤ s.rf.zqCounter + 1 ∧ s.rf.zqCounter + 1 ≤ c.rf.tRP + 1 := by omega
      rw [if_pos h3, if_pos hin]; omega
    · -- this calibration's command is past: the due flag waits for the next episode
      have hdu : zqDue s.rf = true := by
        rcases hd with a | ⟨_, a⟩
        · exact a
        · exact absurd a hin
      refine ⟨Or.inl (hdue' hdu hns), ?_⟩
      simp only [zpot, hfs, if_neg hin]
      rcases hZ1 hfs with ⟨e1, e2⟩ | e1
      · have hnd : s.rf.zqDone = false := by
          cases hdn : s.rf.zqDone
          · rfl
          · rw [hfsm'] at e1; simp [RefresherInv.fsmNext, hfs, hdn] at e1
        have hzne : s.rf.zqCounter ≠ 0 := fun e0 => by rw [h.zqd hfs e0] at hnd; cases hnd
        have hnin : ¬ (1 ≤ (Controller.step c s ins).1.rf.zqCounter ∧ (Controller.step c s ins).1.rf.zqCounter ≤ c.rf.tRP + 1) := by
          rw [hzc']
          by_cases hl : s.rf.zqCounter = c.rf.tRP + z
          · simp [hl]
          · simp only [hl, if_false, hzne]; omega
        simp only [e1, if_neg hnin]; omega
      · cases hq' : (Controller.step c s ins).1.rf.reqO
        · simp only [e1, Bool.false_eq_true, if_false]
          have : 1 ≤ zqRem c.rf s.rf := by simp only [zqRem, hz]; omega
          omega
        · simp only [e1, if_true]
          have : 1 ≤ zqRem c.rf s.rf := by simp only [zqRem, hz]; omega
          omega

theorem reach_zq (c : Controller.Cfg) (hwf : CtlInv.WF c) (hb : Budget c) (hwr : c.rf.withRefresh = true) (z : Nat)
    (hz : c.rf.tZQCS = some z) (inputs : List (Array BankIn)) :
    ∀ (s : Controller.State) (g : Ghost) (w : Nat → Nat), NL c s g w → zD c s → (∀ ins ∈ inputs, InsOk c ins) →
      zpot c s w ≤ inputs.length → ∃ k, k ≤ zpot c s w ∧ zqAcc c (CtlLive.runCtl c s (inputs.take k)) = true := by
  induction inputs with
  | nil =>
    intro s g w h hd _ hlen
    cases ha : zqAcc c s
    · -- the potential is positive unless the command is being taken
      exfalso
      simp only [List.length_nil] at hlen
      have hrp := hwf.rf.tRP
      cases hfs : s.rf.fsm <;> simp only [zpot, hfs, zA] at hlen
      · omega
      · omega
      · have := Wd_pos c.rf s.rf; omega
      · by_cases hin : 1 ≤ s.rf.zqCounter ∧ s.rf.zqCounter ≤ c.rf.tRP + 1
        · rw [if_pos hin] at hlen
          have e : s.rf.zqCounter = c.rf.tRP + 1 := by omega
          rw [zqAcc_of c hwf s g h.cinv hfs e] at ha; cases ha
        · rw [if_neg hin] at hlen; omega
    · exact ⟨0, Nat.zero_le _, by simpa [CtlLive.runCtl] using ha⟩
  | cons ins rest ih =>
    intro s g w h hd hins hlen
    cases ha : zqAcc c s
    · obtain ⟨hd', hdec⟩ := zq_step c hwf hb hwr z hz s g w ins (hins ins (by simp)) h hd ha
      have h' := nl_step c hwf hb s g w ins (hins ins (by simp)) h
      simp only [List.length_cons] at hlen
      obtain ⟨k, hk, hkf⟩ := ih _ _ _ h' hd' (fun x hx => hins x (by simp [hx])) (by omega)
      exact ⟨k + 1, by omega, by simpa [CtlLive.runCtl] using hkf⟩
    · exact ⟨0, Nat.zero_le _, by simpa [CtlLive.runCtl] using ha⟩

def zMax (c : Controller.Cfg) : Nat :=
  2 * (c.rf.postponing * c.rf.tREFI) + zA c + c.rf.tRP + c.rf.tZQCS.getD 0 + 4

theorem zpot_le (c : Controller.Cfg) (hwf : CtlInv.WF c) (hb : Budget c) (z : Nat) (hz : c.rf.tZQCS = some z)
    (s : Controller.State) (g : Ghost) (w : Nat → Nat) (h : NL c s g w) : zpot c s w ≤ zMax c := by
  have hTr : Tr c.rf s.rf ≤ c.rf.postponing * c.rf.tREFI := by
    have h1 := h.rng.1; have h2 := h.rng.2
    have hP := hwf.rf.post
    simp only [Tr]
    have : s.rf.postCount * c.rf.tREFI ≤ (c.rf.postponing - 1) * c.rf.tREFI := Nat.mul_le_mul_right _ (by omega)
    have e : c.rf.postponing * c.rf.tREFI = (c.rf.postponing - 1) * c.rf.tREFI + c.rf.tREFI := by
      have : c.rf.postponing = (c.rf.postponing - 1) + 1 := by omega
      conv => lhs; rw [this, Nat.add_mul, Nat.one_mul]
    omega
  have hmain := h.main
  have hpsi := psi_le c s w h.mok
  have hzc := h.cinv.rf.zcntLe
  rw [hz] at hzc; simp only [Option.getD_some] at hzc
  simp only [zMax, hz, Option.getD_some]
  cases hfs : s.rf.fsm <;> simp only [zpot, hfs, zA]
  · split <;> omega
  · split <;> omega
  · simp only [epi, hfs, reduceCtorEq, if_false] at hmain; omega
  · split
    · omega
    · simp only [zqRem, hz]; split <;> omega

end RefreshRate
