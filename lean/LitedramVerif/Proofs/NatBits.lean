/-
Helper lemmas about div/mod re-packing of naturals (no property statements here).
-/
namespace NatBits

theorem split_join (a m : Nat) : a % m + m * (a / m) = a := Nat.mod_add_div a m

/-- `x + m*y` with `x < m` decomposes uniquely. -/
theorem join_mod {x m : Nat} (y : Nat) (h : x < m) : (x + m * y) % m = x := by
  rw [Nat.add_mul_mod_self_left]; exact Nat.mod_eq_of_lt h

theorem join_div {x m : Nat} (y : Nat) (h : x < m) : (x + m * y) / m = y := by
  have hm : 0 < m := by omega
  rw [Nat.add_mul_div_left _ _ hm, Nat.div_eq_of_lt h, Nat.zero_add]

theorem join_lt {x m y n : Nat} (hx : x < m) (hy : y < n) : x + m * y < m * n := by
  have : m * y + m ≤ m * n := by
    have : m * (y + 1) ≤ m * n := Nat.mul_le_mul_left m hy
    simpa [Nat.mul_add] using this
  omega

theorem div_lt_of_lt_mul' {a m n : Nat} (h : a < m * n) : a / m < n :=
  Nat.div_lt_of_lt_mul h

theorem pow_split {a b : Nat} (h : a ≤ b) : 2 ^ b = 2 ^ a * 2 ^ (b - a) := by
  rw [← Nat.pow_add]; congr 1; omega

theorem two_pow_pos (n : Nat) : 0 < 2 ^ n := Nat.two_pow_pos n

theorem succ_mod (x M : Nat) (hM : 0 < M) :
    (x + 1) % M = if x % M + 1 = M then 0 else x % M + 1 := by
  have hx : x % M < M := Nat.mod_lt _ hM
  have e : x + 1 = (x % M + 1) + M * (x / M) := by have := Nat.mod_add_div x M; omega
  split
  · next h => rw [e, h, Nat.add_mul_mod_self_left, Nat.mod_self]
  · next h => rw [e]; exact join_mod _ (by omega)

theorem succ_div (x M : Nat) (hM : 0 < M) :
    (x + 1) / M = if x % M + 1 = M then x / M + 1 else x / M := by
  have hx : x % M < M := Nat.mod_lt _ hM
  have e : x + 1 = (x % M + 1) + M * (x / M) := by have := Nat.mod_add_div x M; omega
  split
  · next h => rw [e, h, Nat.add_mul_div_left _ _ hM, Nat.div_self hM, Nat.add_comm]
  · next h => rw [e]; exact join_div _ (by omega)

end NatBits
