/-
Helper lemmas (no property statements): from the controller invariant (Proofs/ControllerInv.lean) to the DFI
bus.  What the steerer's registers show in every phase is decoded with the JEDEC truth table of the
specification (`Dram.decode`) and run through the specification monitor `Spec/BankMon.lean`:
 * `bm_phase_step`   a bank machine's accepted command, as it appears on its DFI phase (rank decode → chip
                     selects, A10 = auto-precharge / never a column bit, RD/WR on the read/write phase with its
                     data-enable strobe), is accepted by the monitor and changes exactly that bank
 * `rf_phase_step`   the refresher's accepted command (PREA / REF / ZQC on phase 0, all ranks) likewise
 * `dfi_cycle`       all phases of one controller cycle, for every multiplexer state
-/
import LitedramVerif.Proofs.ControllerInv
import LitedramVerif.Spec.BankMon
namespace CtlInv
open Controller Hw

theorem colOf_bit10 (c : BankMachine.Cfg) (addr : Nat) : (BankMachine.colOf c addr).testBit 10 = false := by
  unfold BankMachine.colOf
  simp only []
  split
  · rw [Nat.testBit_or, Nat.testBit_shiftLeft, Nat.testBit_shiftLeft]
    have h2 : decide (10 ≥ 11) = false := by decide
    rw [h2, Bool.false_and, Bool.or_false]
    by_cases ha : 10 ≥ c.align
    · have : (addr % 2 ^ (10 - c.align)).testBit (10 - c.align) = false :=
        Nat.testBit_lt_two_pow (Nat.mod_lt _ (Nat.two_pow_pos _))
      simp [this]
    · simp [ha]
  · next h =>
    apply Nat.testBit_lt_two_pow
    rw [Nat.shiftLeft_eq]
    by_cases ha : c.align ≤ c.colbits
    · calc addr % 2 ^ (c.colbits - c.align) * 2 ^ c.align < 2 ^ (c.colbits - c.align) * 2 ^ c.align :=
            Nat.mul_lt_mul_of_pos_right (Nat.mod_lt _ (Nat.two_pow_pos _)) (Nat.two_pow_pos _)
        _ = 2 ^ c.colbits := by rw [← Nat.pow_add]; congr 1; omega
        _ ≤ 2 ^ 10 := Nat.pow_le_pow_right (by decide) (by omega)
    · have : c.colbits - c.align = 0 := by omega
      rw [this]; simp [Nat.mod_one]

def classify (r : BankMachine.Req) (ap : Bool) : C02.Cmd :=
  if r.valid then (if r.cas then .cas ap else if r.ras && r.we then .pre else if r.ras then .act r.a else .nop) else .nop

theorem bm_cmdOf (c : BankMachine.Cfg) (s : BankMachine.State) (i : BankMachine.In) :
    C02.cmdOf (BankMachine.step c s i).1 (BankMachine.step c s i).2 i.ready =
      if i.ready then classify (BankMachine.req c s i.valid i.we i.addr i.refresh) ((BankMachine.step c s i).1.fsm == .autoprecharge)
      else .nop := by
  cases hr : i.ready <;> simp [C02.cmdOf, classify, BankMachine.req, BankMachine.step]

/-- facts about a request view: exactly one of CAS / PRE / ACT when valid; the A10 line is the auto-precharge flag -/
theorem req_facts (c : BankMachine.Cfg) (s : BankMachine.State) (v w : Bool) (a : Nat) (rf : Bool) (hab : 11 ≤ c.abits) :
    let r := BankMachine.req c s v w a rf
    (r.valid = true → (r.cas = true ∧ r.ras = false) ∨ (r.cas = false ∧ r.ras = true)) ∧
    (r.cas = true → r.we = r.isWrite ∧ r.isRead = !r.isWrite ∧ r.isCmd = false) ∧
    (r.cas = false → r.isRead = false ∧ r.isWrite = false) ∧
    (r.ras = true → r.we = true → r.a.testBit 10 = false) ∧
    (r.valid = true → r.ras = true → r.isCmd = true) := by
  simp only [BankMachine.req, BankMachine.step]
  have hc := colOf_bit10 c s.buf.addr
  refine ⟨?_, ?_, ?_, ?_, ?_⟩
  · cases hf : s.fsm <;> simp <;> grind
  · cases hf : s.fsm <;> simp <;> grind
  · cases hf : s.fsm <;> simp <;> grind
  · have hm : ∀ x : Nat, (x % 2 ^ c.abits).testBit 10 = x.testBit 10 := by
      intro x; rw [Nat.testBit_mod_two_pow]; simp; omega
    cases hf : s.fsm <;> simp [hm, hc]
  · cases hf : s.fsm <;> simp <;> grind

theorem cas_ap (c : BankMachine.Cfg) (s : BankMachine.State) (i : BankMachine.In) (hab : 11 ≤ c.abits)
    (hcas : (BankMachine.req c s i.valid i.we i.addr i.refresh).cas = true) (hr : i.ready = true) :
    ((BankMachine.step c s i).1.fsm == .autoprecharge) = (BankMachine.req c s i.valid i.we i.addr i.refresh).a.testBit 10 := by
  have hm : ∀ x : Nat, (x % 2 ^ c.abits).testBit 10 = x.testBit 10 := by
    intro x; rw [Nat.testBit_mod_two_pow]; simp; omega
  have hc := colOf_bit10 c s.buf.addr
  simp only [BankMachine.req, BankMachine.step] at hcas ⊢
  cases hf : s.fsm <;> simp [hf] at hcas
  simp [hf, hcas, hr, hm, hc, Nat.testBit_or]
  have h1024 : Nat.testBit 1024 10 = true := by decide
  repeat' split
  all_goals simp_all

/-! ### rank decode ↔ chip selects -/
theorem filter_range_singleton (n k : Nat) (p : Nat → Bool) (hk : k < n) (hp : ∀ r, r < n → (p r = true ↔ r = k)) :
    (List.range n).filter p = [k] := by
  induction n with
  | zero => omega
  | succ n ih =>
    rw [List.range_succ, List.filter_append]
    by_cases hkn : k = n
    · subst hkn
      have h1 : (List.range k).filter p = [] := by
        rw [List.filter_eq_nil_iff]
        intro r hr
        have hr' : r < k := by simpa using hr
        have := hp r (by omega)
        intro hc; have := this.mp hc; omega
      have h2 : p k = true := (hp k (by omega)).mpr rfl
      simp [h1, h2]
    · have h1 := ih (by omega) (fun r hr => hp r (by omega))
      have h2 : p n = false := by
        cases hpn : p n
        · rfl
        · have := (hp n (by omega)).mp hpn; omega
      simp [h1, h2]

def monCfgB (c : Cfg) : BankMon.Cfg :=
  { nphases := c.nphases, nranks := 2 ^ c.rankbits, nbanks := 2 ^ c.bankbits, rdphase := c.rdphase, wrphase := c.wrphase }

theorem decodeRank_sel (c : Cfg) (ba : Nat) (hba : ba < 2 ^ (c.rankbits + c.bankbits)) :
    BankMon.selected (monCfgB c) (decodeRank c ba).1 = [ba / 2 ^ c.bankbits] ∧
    (decodeRank c ba).2 < 2 ^ c.bankbits ∧
    (ba / 2 ^ c.bankbits) * 2 ^ c.bankbits + (decodeRank c ba).2 = ba := by
  have hrank : ba / 2 ^ c.bankbits < 2 ^ c.rankbits := by
    rw [Nat.div_lt_iff_lt_mul (Nat.two_pow_pos _), ← Nat.pow_add]; exact hba
  unfold decodeRank BankMon.selected monCfgB
  by_cases hr0 : c.rankbits = 0
  · simp only [hr0, beq_self_eq_true, if_true, Nat.pow_zero] at hrank ⊢
    have hb : ba < 2 ^ c.bankbits := by rw [hr0] at hba; simpa using hba
    have : ba / 2 ^ c.bankbits = 0 := Nat.div_eq_of_lt hb
    refine ⟨?_, hb, by rw [this]; simp⟩
    rw [this]; decide
  · have hr0' : (c.rankbits == 0) = false := by simpa using hr0
    simp only [hr0', Bool.false_eq_true, if_false, Nat.shiftRight_eq_div_pow]
    refine ⟨?_, Nat.mod_lt _ (Nat.two_pow_pos _), by rw [Nat.mul_comm]; exact Nat.div_add_mod _ _⟩
    apply filter_range_singleton _ _ _ hrank
    intro r hr
    generalize ba / 2 ^ c.bankbits = rank at hrank ⊢
    have h1 : (1 <<< rank) % 2 ^ 2 ^ c.rankbits = 2 ^ rank := by
      rw [Nat.one_shiftLeft]; exact Nat.mod_eq_of_lt (Nat.pow_lt_pow_right (by decide) hrank)
    rw [h1]
    have h2 : 2 ^ 2 ^ c.rankbits - 1 - 2 ^ rank = 2 ^ 2 ^ c.rankbits - (2 ^ rank + 1) := by omega
    rw [h2, Nat.testBit_two_pow_sub_succ (Nat.pow_lt_pow_right (by decide) hrank), Nat.testBit_two_pow]
    simp [hr]
    omega

/-! ### what the steerer registers show -/
def mkPhase (c : Cfg) (x : Chosen) (acc : Bool) : Phase :=
  { csN := (decodeRank c x.ba).1, bank := (decodeRank c x.ba).2, address := x.a, casN := !(acc && x.cas), rasN := !(acc && x.ras),
    weN := !(acc && x.we), rddataEn := acc && x.isRead, wrdataEn := acc && x.isWrite }

def nopPhase (c : Cfg) : Phase := { csN := (decodeRank c 0).1, bank := (decodeRank c 0).2, address := 0 }

def rfPhase (c : Cfg) (s : State) : Phase :=
  let ro := roOf c s
  let acc := ro.valid && (s.fsm == .refresh)
  { csN := 0, bank := (decodeRank c ro.ba).2, address := ro.a, casN := !(acc && ro.cas), rasN := !(acc && ro.ras), weN := !(acc && ro.we) }

def dfiNext (c : Cfg) (s : State) (ins : Array BankIn) (i : Nat) : Phase :=
  let k := combOf c s ins
  let one := c.nphases == 1
  match steerSel c s.fsm i with
  | .nop => nopPhase c
  | .cmd => mkPhase c (if one then k.cReq else k.cCmd) (if one then k.reqAccept else k.cmdAccept)
  | .req => mkPhase c k.cReq k.reqAccept
  | .refresh => rfPhase c s

theorem step_dfi (c : Cfg) (s : State) (ins : Array BankIn) (i : Nat) (h : i < c.nphases) :
    (step c s ins).1.dfi[i]! = dfiNext c s ins i := by
  have : (step c s ins).1.dfi = (Array.range c.nphases).map fun i => dfiNext c s ins i := by
    rfl
  rw [this, getElem!_map_range _ _ _ h]

theorem step_dfi_size (c : Cfg) (s : State) (ins : Array BankIn) : (step c s ins).1.dfi.size = c.nphases := by
  simp [step]

/-! ### one DFI phase against the specification monitor -/
open BankMon in
theorem nop_phase_step (c : Controller.Cfg) (served : Option (Nat × Nat)) (b : Banks) (i : Nat) :
    phaseStep (monCfgB c) served b i (C02.toPhase (nopPhase c)) = some b := by
  simp [phaseStep, C02.toPhase, nopPhase, Dram.decode, isRd, isWr]

structure ChosenOf (x : Chosen) (r : BankMachine.Req) (v : Bool) (j : Nat) : Prop where
  ba : x.ba = j
  a : x.a = r.a
  cas : x.cas = (v && r.cas)
  ras : x.ras = (v && r.ras)
  we : x.we = (v && r.we)
  isRead : x.isRead = r.isRead
  isWrite : x.isWrite = r.isWrite
  valid : v = true → r.valid = true

open BankMon in
theorem bm_phase_step (c : Controller.Cfg) (hnb : c.nbm = 2 ^ (c.rankbits + c.bankbits)) (hab : 11 ≤ c.bm.abits)
    (sj : BankMachine.State) (v w : Bool) (ad : Nat) (rf : Bool) (j : Nat) (hj : j < c.nbm)
    (x : Chosen) (vv acc : Bool) (hx : ChosenOf x (BankMachine.req c.bm sj v w ad rf) vv j) (hacc : acc = true → vv = true)
    (d : Option Nat) (b : Banks) (hb : b j = d) (served : Option (Nat × Nat)) (i : Nat) (ap : Bool)
    (hap : (BankMachine.req c.bm sj v w ad rf).cas = true → ap = (BankMachine.req c.bm sj v w ad rf).a.testBit 10)
    (hleg : C02.legal c.bm sj d (if acc then classify (BankMachine.req c.bm sj v w ad rf) ap else .nop) = true)
    (hph : acc = true → (BankMachine.req c.bm sj v w ad rf).cas = true →
        ((BankMachine.req c.bm sj v w ad rf).isRead = true → i = c.rdphase) ∧
        ((BankMachine.req c.bm sj v w ad rf).isWrite = true → i = c.wrphase) ∧
        served = some (j, BankMachine.rowFull c.bm sj.buf.addr)) :
    ∃ b', phaseStep (monCfgB c) served b i (C02.toPhase (mkPhase c x acc)) = some b' ∧
      ∀ k, b' k = if k = j then C02.dramStep d (if acc then classify (BankMachine.req c.bm sj v w ad rf) ap else .nop) else b k := by
  generalize hr : BankMachine.req c.bm sj v w ad rf = r at *
  have hf := req_facts c.bm sj v w ad rf hab
  simp only [hr] at hf
  obtain ⟨hf1, hf2, hf3, hf4, hf5⟩ := hf
  obtain ⟨hsel, hbank, hgb⟩ := decodeRank_sel c j (hnb ▸ hj)
  cases hacc' : acc
  · refine ⟨b, ?_, ?_⟩
    · simp [phaseStep, C02.toPhase, mkPhase, Dram.decode, isRd, isWr]
    · intro k; simp [C02.dramStep]; intro hk; rw [hk, hb]
  · have hv := hacc hacc'
    have hrv := hx.valid hv
    subst hv
    simp only [hacc', if_true] at hleg hph ⊢
    simp only [classify, hrv, if_true] at hleg ⊢
    rcases hf1 hrv with ⟨hc, hra⟩ | ⟨hc, hra⟩
    · -- CAS
      obtain ⟨hwe, hrd, _⟩ := hf2 hc
      obtain ⟨hi1, hi2, hsv⟩ := hph trivial hc
      have hap' := hap hc
      simp only [hc, if_true, C02.legal, beq_iff_eq] at hleg
      have hbj : b ((j / 2 ^ c.bankbits) * 2 ^ c.bankbits + (decodeRank c j).2) = some (BankMachine.rowFull c.bm sj.buf.addr) := by
        rw [hgb, hb, hleg]
      have hbk : (decodeRank c j).2 < (monCfgB c).nbanks := hbank
      have hbj' : b j = some (BankMachine.rowFull c.bm sj.buf.addr) := by rw [hb, hleg]
      cases hw : r.isWrite
      · -- read
        have hir : r.isRead = true := by rw [hrd, hw]; rfl
        have hwe' : r.we = false := by rw [hwe, hw]
        have hi := hi1 hir
        refine ⟨if ap then upd b j none else b, ?_, ?_⟩
        · simp only [phaseStep, C02.toPhase, mkPhase, hx.ba, hx.a, hx.cas, hx.ras, hx.we, hx.isRead, hx.isWrite, hc, hra, hwe', hir, hw,
            Dram.decode, Bool.and_self, Bool.not_true, Bool.not_false, Bool.and_false, Bool.and_true, hsel, isRd, isWr]
          simp [hi, hbj', hsv, hgb, hbank, hap', monCfgB]
        · intro k; simp only [hc, if_true, C02.dramStep]
          cases ap <;> simp [upd, hleg] <;> grind
      · have hir : r.isRead = false := by rw [hrd, hw]; rfl
        have hwe' : r.we = true := by rw [hwe, hw]
        have hi := hi2 hw
        refine ⟨if ap then upd b j none else b, ?_, ?_⟩
        · simp only [phaseStep, C02.toPhase, mkPhase, hx.ba, hx.a, hx.cas, hx.ras, hx.we, hx.isRead, hx.isWrite, hc, hra, hwe', hir, hw,
            Dram.decode, Bool.and_self, Bool.not_true, Bool.not_false, Bool.and_false, Bool.and_true, hsel, isRd, isWr]
          simp [hi, hbj', hsv, hgb, hbank, hap', monCfgB]
        · intro k; simp only [hc, if_true, C02.dramStep]
          cases ap <;> simp [upd, hleg] <;> grind
    · -- PRE / ACT
      obtain ⟨hir, hiw⟩ := hf3 hc
      simp only [hc, Bool.false_eq_true, if_false, hra, Bool.true_and, if_true] at hleg ⊢
      cases hw : r.we
      · -- ACT
        simp only [hw, Bool.false_eq_true, if_false, C02.legal] at hleg ⊢
        have hbn : b j = none := by rw [hb]; simpa using hleg
        refine ⟨upd b j (some r.a), ?_, ?_⟩
        · simp only [phaseStep, C02.toPhase, mkPhase, hx.ba, hx.a, hx.cas, hx.ras, hx.we, hx.isRead, hx.isWrite, hc, hra, hw, hir, hiw,
            Dram.decode, Bool.and_self, Bool.not_true, Bool.not_false, Bool.and_false, Bool.and_true, hsel, isRd, isWr]
          simp [hgb, hbn, hbank, monCfgB]
        · intro k; simp [C02.dramStep, upd]
      · -- PRE
        have ha10 := hf4 hra hw
        simp only [hw, if_true] at hleg ⊢
        refine ⟨upd b j none, ?_, ?_⟩
        · simp only [phaseStep, C02.toPhase, mkPhase, hx.ba, hx.a, hx.cas, hx.ras, hx.we, hx.isRead, hx.isWrite, hc, hra, hw, hir, hiw,
            Dram.decode, Bool.and_self, Bool.not_true, Bool.not_false, Bool.and_false, Bool.and_true, hsel, isRd, isWr, ha10]
          simp [hgb, hbank, monCfgB]
        · intro k; simp [C02.dramStep, upd]

/-! ### folding the phases of a cycle -/
def doneAt (p : Option Nat) (i : Nat) : Bool := match p with | some q => decide (q < i) | none => false

open BankMon in
theorem cycleFrom_append (c : BankMon.Cfg) (sv : Option (Nat × Nat)) (ph : Array Dram.Phase) (l1 l2 : List Nat) (b : Banks) :
    cycleFrom c sv ph (l1 ++ l2) b = (cycleFrom c sv ph l1 b).bind (cycleFrom c sv ph l2) := by
  induction l1 generalizing b with
  | nil => simp [cycleFrom]
  | cons i is ih =>
    simp only [List.cons_append, cycleFrom]
    cases phaseStep c sv b i ph[i]! with
    | none => simp
    | some b' => simp [ih]

open BankMon in
theorem cycle_pointwise (c : BankMon.Cfg) (sv : Option (Nat × Nat)) (phs : Array Dram.Phase) (d fin : Banks) (ph : Nat → Option Nat)
    (n : Nat)
    (hstep : ∀ i, i < n → ∀ b : Banks, (∀ j, b j = if doneAt (ph j) i then fin j else d j) →
        ∃ b', phaseStep c sv b i phs[i]! = some b' ∧ ∀ j, b' j = if doneAt (ph j) (i + 1) then fin j else d j) :
    ∃ b'', cycleFrom c sv phs (List.range n) d = some b'' ∧ ∀ j, b'' j = if doneAt (ph j) n then fin j else d j := by
  induction n with
  | zero =>
    refine ⟨d, by simp [cycleFrom], fun j => ?_⟩
    cases h : ph j <;> simp [doneAt]
  | succ n ih =>
    obtain ⟨b1, h1, h2⟩ := ih (fun i hi => hstep i (by omega))
    obtain ⟨b2, h3, h4⟩ := hstep n (by omega) b1 h2
    refine ⟨b2, ?_, h4⟩
    rw [List.range_succ, cycleFrom_append, h1]
    simp [cycleFrom, h3]

open BankMon in
theorem selected_zero (c : BankMon.Cfg) : selected c 0 = List.range c.nranks := by
  simp [selected]

open BankMon in
theorem rf_phase_step (c : Controller.Cfg) (hnb : c.nbm = 2 ^ (c.rankbits + c.bankbits)) (s : State) (g : Ghost)
    (h : CInv c s g) (hfs : s.fsm = .refresh) (sv : Option (Nat × Nat)) (b : Banks) (hb : ∀ j, j < c.nbm → b j = g.d j) (i : Nat) :
    ∃ b', phaseStep (monCfgB c) sv b i (C02.toPhase (rfPhase c s)) = some b' ∧
      ∀ j, b' j = if j < c.nbm ∧ preaOf c s = true then none else b j := by
  have hnr : 0 < 2 ^ c.rankbits := Nat.two_pow_pos _
  have hnr2 : (monCfgB c).nranks = 2 ^ c.rankbits := rfl
  have hidx : ∀ r k, r < 2 ^ c.rankbits → k < 2 ^ c.bankbits → r * 2 ^ c.bankbits + k < c.nbm := by
    intro r k hr hk
    rw [hnb, Nat.pow_add]
    calc r * 2 ^ c.bankbits + k < r * 2 ^ c.bankbits + 2 ^ c.bankbits := by omega
      _ = (r + 1) * 2 ^ c.bankbits := by rw [Nat.add_mul]; simp
      _ ≤ 2 ^ c.rankbits * 2 ^ c.bankbits := Nat.mul_le_mul_right _ hr
  cases hv : (roOf c s).valid
  · refine ⟨b, ?_, fun j => ?_⟩
    · simp [phaseStep, C02.toPhase, rfPhase, hv, Dram.decode, isRd, isWr]
    · have : preaOf c s = false := by
        simp only [preaOf, RefresherInv.preaAcc]; unfold roOf at hv; simp [hv]
      simp [this]
  · obtain ⟨hall, hcases⟩ := rf_cmd_legal c s g h ⟨hv, hfs⟩
    have hacc : ((roOf c s).valid && (s.fsm == Fsm.refresh)) = true := by simp [hv, hfs]
    have hro : (roOf c s).cas = s.rf.cas ∧ (roOf c s).ras = s.rf.ras ∧ (roOf c s).we = s.rf.we ∧ (roOf c s).a = s.rf.a := by
      simp [roOf, Refresher.out]
    have hpo : preaOf c s = (s.rf.ras && s.rf.we && !s.rf.cas) := by
      unfold roOf at hv
      simp [preaOf, RefresherInv.preaAcc, hv, hfs]
    rcases hcases with hn | hp | ⟨hrz, hclosed⟩
    · obtain ⟨h1, h2, h3⟩ := hn
      refine ⟨b, ?_, fun j => ?_⟩
      · simp [phaseStep, C02.toPhase, rfPhase, hacc, hro, h1, h2, h3, Dram.decode, isRd, isWr]
      · simp [hpo, h1, h2, h3]
    · obtain ⟨h1, h2, h3, h4⟩ := hp
      refine ⟨closeRanks (monCfgB c) b (List.range (2 ^ c.rankbits)), ?_, fun j => ?_⟩
      · have h10 : Nat.testBit 1024 10 = true := by decide
        simp only [phaseStep, C02.toPhase, rfPhase, hacc, hro, h1, h2, h3, h4, Dram.decode, isRd, isWr, selected_zero, h10]
        simp [hnr2]
      · simp only [hpo, h1, h2, h3, closeRanks, monCfgB]
        by_cases hj : j < c.nbm
        · have : j / 2 ^ c.bankbits < 2 ^ c.rankbits := by
            rw [Nat.div_lt_iff_lt_mul (Nat.two_pow_pos _), ← Nat.pow_add]; exact hnb ▸ hj
          simp [hj, this]
        · have : ¬ j / 2 ^ c.bankbits < 2 ^ c.rankbits := by
            rw [Nat.div_lt_iff_lt_mul (Nat.two_pow_pos _), ← Nat.pow_add]; exact fun hc => hj (hnb ▸ hc)
          simp [hj, this]
    · have hrc : ranksClosed (monCfgB c) b (List.range (2 ^ c.rankbits)) = true := by
        simp only [ranksClosed, monCfgB, List.all_eq_true, List.mem_range]
        intro r hr k hk
        have := hidx r k hr hk
        rw [hb _ this, hclosed _ this]; rfl
      rcases hrz with hr | hz
      · obtain ⟨h1, h2, h3⟩ := hr
        refine ⟨b, ?_, fun j => ?_⟩
        · simp only [phaseStep, C02.toPhase, rfPhase, hacc, hro, h1, h2, h3, Dram.decode, isRd, isWr, selected_zero]
          simp [hnr2, hrc]
        · simp [hpo, h1, h2, h3]
      · obtain ⟨h1, h2, h3⟩ := hz
        refine ⟨b, ?_, fun j => ?_⟩
        · simp only [phaseStep, C02.toPhase, rfPhase, hacc, hro, h1, h2, h3, Dram.decode, isRd, isWr, selected_zero]
          simp [hnr2, hrc]
        · simp [hpo, h1, h2, h3]

/-! ### the choosers -/
def reqJ (c : Controller.Cfg) (s : State) (ins : Array BankIn) (j : Nat) : BankMachine.Req :=
  BankMachine.req c.bm s.bms[j]! (ins[j]!).valid (ins[j]!).we (ins[j]!).addr (roOf c s).valid

theorem reqsOf_get (c : Controller.Cfg) (s : State) (ins : Array BankIn) (j : Nat) (hj : j < c.nbm) :
    (reqsOf c s ins)[j]! = reqJ c s ins j := by
  unfold reqsOf; rw [getElem!_map_range _ _ _ hj]; rfl

theorem reqsOf_size (c : Controller.Cfg) (s : State) (ins : Array BankIn) : (reqsOf c s ins).size = c.nbm := by
  simp [reqsOf]

theorem map_get_true {α : Type} [Inhabited α] (arr : Array α) (f : α → Bool) (g : Nat) (h : (arr.map f)[g]! = true) :
    g < arr.size ∧ f arr[g]! = true := by
  by_cases hg : g < arr.size
  · refine ⟨hg, ?_⟩
    have hg' : g < (arr.map f).size := by simpa using hg
    rw [getElem!_pos (arr.map f) g hg'] at h
    rw [getElem!_pos arr g hg]
    simpa using h
  · have hg' : ¬ g < (arr.map f).size := by simpa using hg
    rw [getElem!_neg (arr.map f) g hg'] at h
    cases h

theorem choose_of (reqs : Array BankMachine.Req) (valids : Array Bool) (g : Nat)
    (hv : valids[g]! = true → reqs[g]!.valid = true) :
    ChosenOf (choose reqs valids g) reqs[g]! valids[g]! g :=
  ⟨rfl, rfl, rfl, rfl, rfl, rfl, rfl, hv⟩

theorem chooserValid_valid (r : BankMachine.Req) (a b cc d : Bool) (h : chooserValid r a b cc d = true) : r.valid = true := by
  simp only [chooserValid, Bool.and_eq_true] at h; exact h.1

theorem comb_req (c : Controller.Cfg) (s : State) (ins : Array BankIn) (hab : 11 ≤ c.bm.abits)
    (h : (combOf c s ins).reqAccept = true) :
    s.grantReq < c.nbm ∧ (s.fsm = .read ∨ s.fsm = .write) ∧
    ChosenOf (combOf c s ins).cReq (reqJ c s ins s.grantReq) true s.grantReq ∧
    ((c.nphases == 1) = false → (reqJ c s ins s.grantReq).isRead = (s.fsm == .read) ∧ (reqJ c s ins s.grantReq).isWrite = (s.fsm == .write)) ∧
    ((reqJ c s ins s.grantReq).cas = true → (reqJ c s ins s.grantReq).isRead = (s.fsm == .read) ∧ (reqJ c s ins s.grantReq).isWrite = (s.fsm == .write)) := by
  simp only [combOf, Bool.and_eq_true] at h
  obtain ⟨hv, hrdy⟩ := h
  have hv' : ((reqsOf c s ins).map fun r => chooserValid r (s.fsm == .read) (s.fsm == .write) (c.nphases == 1)
      (c.nphases == 1 && (s.trrd.ready && s.tfaw.ready)))[s.grantReq]! = true := hv
  obtain ⟨hlt, hcv⟩ := map_get_true _ _ _ hv'
  rw [reqsOf_size] at hlt
  rw [reqsOf_get c s ins _ hlt] at hcv
  have hact : s.fsm = .read ∨ s.fsm = .write := by
    cases hf : s.fsm <;> simp [hf] at hrdy <;> simp
  refine ⟨hlt, hact, ?_, ?_, ?_⟩
  · have := choose_of (reqsOf c s ins) ((reqsOf c s ins).map fun r => chooserValid r (s.fsm == .read) (s.fsm == .write) (c.nphases == 1)
      (c.nphases == 1 && (s.trrd.ready && s.tfaw.ready))) s.grantReq (fun hh => by
        rw [reqsOf_get c s ins _ hlt]; exact chooserValid_valid _ _ _ _ _ hcv)
    rw [hv', reqsOf_get c s ins _ hlt] at this
    exact this
  · intro hone
    simp only [chooserValid, hone, Bool.and_false, Bool.false_and, Bool.false_or, Bool.and_eq_true, beq_iff_eq] at hcv
    exact hcv.2
  · intro hcas
    have hf := (req_facts c.bm s.bms[s.grantReq]! (ins[s.grantReq]!).valid (ins[s.grantReq]!).we (ins[s.grantReq]!).addr (roOf c s).valid hab).2.1 hcas
    have hic : (reqJ c s ins s.grantReq).isCmd = false := hf.2.2
    simp only [chooserValid, hic, Bool.false_and, Bool.false_or, Bool.and_eq_true, beq_iff_eq] at hcv
    exact hcv.2

theorem comb_cmd (c : Controller.Cfg) (s : State) (ins : Array BankIn)
    (h : (combOf c s ins).cmdAccept = true) :
    (c.nphases == 1) = false ∧ s.grantCmd < c.nbm ∧ (s.fsm = .read ∨ s.fsm = .write) ∧
    ChosenOf (combOf c s ins).cCmd (reqJ c s ins s.grantCmd) true s.grantCmd ∧
    (reqJ c s ins s.grantCmd).isRead = false ∧ (reqJ c s ins s.grantCmd).isWrite = false := by
  simp only [combOf, Bool.and_eq_true] at h
  obtain ⟨hv, hrdy⟩ := h
  have hv' : ((reqsOf c s ins).map fun r => chooserValid r false false false
      ((s.fsm == .read || s.fsm == .write) && (s.trrd.ready && s.tfaw.ready)))[s.grantCmd]! = true := hv
  obtain ⟨hlt, hcv⟩ := map_get_true _ _ _ hv'
  rw [reqsOf_size] at hlt
  rw [reqsOf_get c s ins _ hlt] at hcv
  have hact : s.fsm = .read ∨ s.fsm = .write := by
    cases hf : s.fsm <;> simp [hf] at hrdy <;> simp
  have hone : (c.nphases == 1) = false := by
    cases ho : (c.nphases == 1) <;> simp [ho] at hrdy ⊢
  refine ⟨hone, hlt, hact, ?_, ?_⟩
  · have := choose_of (reqsOf c s ins) ((reqsOf c s ins).map fun r => chooserValid r false false false
      ((s.fsm == .read || s.fsm == .write) && (s.trrd.ready && s.tfaw.ready))) s.grantCmd (fun hh => by
        rw [reqsOf_get c s ins _ hlt]; exact chooserValid_valid _ _ _ _ _ hcv)
    rw [hv', reqsOf_get c s ins _ hlt] at this
    exact this
  · simp only [chooserValid, Bool.and_false, Bool.false_and, Bool.false_or, Bool.and_eq_true, beq_iff_eq] at hcv
    exact hcv.2

/-! ### one controller cycle against the monitor -/
structure WF2 (c : Controller.Cfg) : Prop where
  base : WF c
  nbm : c.nbm = 2 ^ (c.rankbits + c.bankbits)
  abits : 11 ≤ c.bm.abits
  nph : 1 ≤ c.nphases
  rdp : c.rdphase < c.nphases
  wrp : c.wrphase < c.nphases

def servedOf (c : Controller.Cfg) (s : State) (ins : Array BankIn) : Option (Nat × Nat) :=
  if (combOf c s ins).reqAccept && (combOf c s ins).cReq.cas then
    some (s.grantReq, BankMachine.rowFull c.bm (s.bms[s.grantReq]!).buf.addr)
  else none

theorem phs_get (c : Controller.Cfg) (s : State) (ins : Array BankIn) (i : Nat) (hi : i < c.nphases) :
    ((step c s ins).1.dfi.map C02.toPhase)[i]! = C02.toPhase (dfiNext c s ins i) := by
  have hsz : i < ((step c s ins).1.dfi.map C02.toPhase).size := by simp [step_dfi_size, hi]
  rw [getElem!_pos ((step c s ins).1.dfi.map C02.toPhase) i hsz]
  simp only [Array.getElem_map]
  have hsz2 : i < (step c s ins).1.dfi.size := by simp [step_dfi_size, hi]
  rw [← step_dfi c s ins i hi, getElem!_pos (step c s ins).1.dfi i hsz2]

open BankMon in
theorem mk_phase_noacc (c : Controller.Cfg) (x : Chosen) (sv : Option (Nat × Nat)) (b : Banks) (i : Nat) :
    phaseStep (monCfgB c) sv b i (C02.toPhase (mkPhase c x false)) = some b := by
  simp [phaseStep, C02.toPhase, mkPhase, Dram.decode, isRd, isWr]

def apOf (c : Controller.Cfg) (s : State) (ins : Array BankIn) (j : Nat) : Bool :=
  (BankMachine.step c.bm s.bms[j]! (bmIn c s ins j)).1.fsm == .autoprecharge

theorem gnext_d (c : Controller.Cfg) (s : State) (g : Ghost) (ins : Array BankIn) (j : Nat) :
    (gNext c s g ins).d j = if preaOf c s then none else
      C02.dramStep (g.d j) (if bmReadyOf c s ins j then classify (reqJ c s ins j) (apOf c s ins j) else .nop) := by
  simp only [gNext, cmdOfBm]
  have := bm_cmdOf c.bm s.bms[j]! (bmIn c s ins j)
  have hr : (bmIn c s ins j).ready = bmReadyOf c s ins j := rfl
  rw [hr] at this
  rw [this]
  rfl

theorem preaOf_false (c : Controller.Cfg) (s : State) (h : s.fsm ≠ .refresh) : preaOf c s = false := by
  simp only [preaOf, RefresherInv.preaAcc]
  cases hf : s.fsm <;> simp_all

theorem bmReady_inactive (c : Controller.Cfg) (s : State) (ins : Array BankIn) (j : Nat)
    (h : s.fsm ≠ .read ∧ s.fsm ≠ .write) : bmReadyOf c s ins j = false := by
  simp only [bmReadyOf, combOf]
  cases hf : s.fsm <;> simp_all

open BankMon in
theorem dfi_cycle_idle (c : Controller.Cfg) (s : State) (g : Ghost) (ins : Array BankIn)
    (hf : s.fsm ≠ .read ∧ s.fsm ≠ .write ∧ s.fsm ≠ .refresh) (b : Banks) (hb : ∀ j, j < c.nbm → b j = g.d j) :
    ∃ b', cycleStep (monCfgB c) (servedOf c s ins) b ((step c s ins).1.dfi.map C02.toPhase) = some b' ∧
      ∀ j, j < c.nbm → b' j = (gNext c s g ins).d j := by
  obtain ⟨b', h1, h2⟩ := cycle_pointwise (monCfgB c) (servedOf c s ins) ((step c s ins).1.dfi.map C02.toPhase) b b
    (fun _ => none) c.nphases (by
      intro i hi bb hbb
      refine ⟨bb, ?_, fun j => by rw [hbb j]; simp [doneAt]⟩
      · rw [phs_get c s ins i hi]
        have : dfiNext c s ins i = nopPhase c := by
          unfold dfiNext steerSel
          cases hfs : s.fsm <;> simp_all
        rw [this, nop_phase_step])
  refine ⟨b', h1, fun j hj => ?_⟩
  rw [h2 j, gnext_d, preaOf_false c s hf.2.2, bmReady_inactive c s ins j ⟨hf.1, hf.2.1⟩]
  simp [doneAt, C02.dramStep, hb j hj]

open BankMon in
theorem dfi_cycle_refresh (c : Controller.Cfg) (hwf : WF2 c) (s : State) (g : Ghost) (ins : Array BankIn) (h : CInv c s g)
    (hf : s.fsm = .refresh) (b : Banks) (hb : ∀ j, j < c.nbm → b j = g.d j) :
    ∃ b', cycleStep (monCfgB c) (servedOf c s ins) b ((step c s ins).1.dfi.map C02.toPhase) = some b' ∧
      ∀ j, j < c.nbm → b' j = (gNext c s g ins).d j := by
  obtain ⟨b', h1, h2⟩ := cycle_pointwise (monCfgB c) (servedOf c s ins) ((step c s ins).1.dfi.map C02.toPhase) b
    (fun _ => none) (fun j => if j < c.nbm ∧ preaOf c s = true then some 0 else none) c.nphases (by
      intro i hi bb hbb
      rw [phs_get c s ins i hi]
      by_cases hi0 : i = 0
      · subst hi0
        have : dfiNext c s ins 0 = rfPhase c s := by
          unfold dfiNext steerSel; simp [hf]
        rw [this]
        have hbb' : ∀ j, j < c.nbm → bb j = g.d j := by
          intro j hj; rw [hbb j, ← hb j hj]; split <;> simp [doneAt]
        obtain ⟨b2, hb2, hb3⟩ := rf_phase_step c hwf.nbm s g h hf (servedOf c s ins) bb hbb' 0
        refine ⟨b2, hb2, fun j => ?_⟩
        rw [hb3 j, hbb j]
        by_cases hc : j < c.nbm ∧ preaOf c s = true <;> simp [hc, doneAt]
      · have : dfiNext c s ins i = nopPhase c := by
          unfold dfiNext steerSel; simp [hf, hi0]
        rw [this, nop_phase_step]
        refine ⟨bb, rfl, fun j => ?_⟩
        rw [hbb j]
        by_cases hc : j < c.nbm ∧ preaOf c s = true <;> simp [hc, doneAt] <;> omega)
  refine ⟨b', h1, fun j hj => ?_⟩
  rw [h2 j, gnext_d, bmReady_inactive c s ins j (by simp [hf])]
  have := hwf.nph
  by_cases hp : preaOf c s = true
  · simp [hp, hj, doneAt]; omega
  · simp [hp, doneAt, C02.dramStep, hb j hj]

open BankMon in
theorem acc_phase (c : Controller.Cfg) (hwf : WF2 c) (s : State) (g : Ghost) (ins : Array BankIn)
    (hleg : ∀ j, j < c.nbm → C02.legal c.bm s.bms[j]! (g.d j) (cmdOfBm c s ins j) = true)
    (x : Chosen) (acc : Bool) (j i : Nat)
    (hacc : acc = true → j < c.nbm ∧ ChosenOf x (reqJ c s ins j) true j ∧ bmReadyOf c s ins j = true ∧
      ((reqJ c s ins j).cas = true → ((reqJ c s ins j).isRead = true → i = c.rdphase) ∧
        ((reqJ c s ins j).isWrite = true → i = c.wrphase) ∧
        servedOf c s ins = some (j, BankMachine.rowFull c.bm (s.bms[j]!).buf.addr)))
    (bb : Banks) (hbj : acc = true → bb j = g.d j) :
    ∃ b2, phaseStep (monCfgB c) (servedOf c s ins) bb i (C02.toPhase (mkPhase c x acc)) = some b2 ∧
      ∀ k, b2 k = if acc = true ∧ k = j then C02.dramStep (g.d j) (classify (reqJ c s ins j) (apOf c s ins j)) else bb k := by
  cases ha : acc
  · exact ⟨bb, mk_phase_noacc c x _ bb i, fun k => by simp⟩
  · obtain ⟨hj, hx, hrdy, hph⟩ := hacc ha
    have hl := hleg j hj
    have hcm : cmdOfBm c s ins j = classify (reqJ c s ins j) (apOf c s ins j) := by
      have := bm_cmdOf c.bm s.bms[j]! (bmIn c s ins j)
      have hr : (bmIn c s ins j).ready = bmReadyOf c s ins j := rfl
      rw [hr, hrdy] at this
      simp only [if_true] at this
      show C02.cmdOf _ _ (bmReadyOf c s ins j) = _
      rw [hrdy]
      exact this
    rw [hcm] at hl
    have hap : (reqJ c s ins j).cas = true → apOf c s ins j = (reqJ c s ins j).a.testBit 10 := by
      intro hc
      exact cas_ap c.bm s.bms[j]! (bmIn c s ins j) hwf.abits hc hrdy
    obtain ⟨b2, h1, h2⟩ := bm_phase_step c hwf.nbm hwf.abits s.bms[j]! (ins[j]!).valid (ins[j]!).we (ins[j]!).addr (roOf c s).valid j hj
      x true true hx (fun _ => rfl) (g.d j) bb (hbj ha) (servedOf c s ins) i (apOf c s ins j) hap hl
      (fun _ hc => hph hc)
    refine ⟨b2, h1, fun k => ?_⟩
    rw [h2 k]
    by_cases hk : k = j
    · simp only [hk, if_true, and_self]; rfl
    · simp [hk]

theorem steer_active (c : Controller.Cfg) (s : State) (hf : s.fsm = .read ∨ s.fsm = .write) (i : Nat) :
    steerSel c s.fsm i =
      (if i = ((if s.fsm = .read then c.rdphase else c.wrphase) + c.nphases - 1) % c.nphases then Sel.cmd
       else if i = (if s.fsm = .read then c.rdphase else c.wrphase) then Sel.req else Sel.nop) := by
  rcases hf with hf | hf <;> simp [steerSel, hf]

theorem bmReady_eq (c : Controller.Cfg) (s : State) (ins : Array BankIn) (j : Nat) :
    bmReadyOf c s ins j = (((combOf c s ins).reqAccept && s.grantReq == j) || ((combOf c s ins).cmdAccept && s.grantCmd == j)) := rfl

theorem acc_exclusive (c : Controller.Cfg) (s : State) (ins : Array BankIn) (hab : 11 ≤ c.bm.abits)
    (h1 : (combOf c s ins).cmdAccept = true) (h2 : (combOf c s ins).reqAccept = true) : s.grantCmd ≠ s.grantReq := by
  intro he
  obtain ⟨hone, _, hact, _, hr, hw⟩ := comb_cmd c s ins h1
  obtain ⟨_, _, _, hm, _⟩ := comb_req c s ins hab h2
  obtain ⟨hr2, hw2⟩ := hm hone
  rw [he] at hr hw
  rw [hr] at hr2; rw [hw] at hw2
  rcases hact with hf | hf <;> simp [hf] at hr2 hw2

open BankMon in
theorem dfi_cycle_active (c : Controller.Cfg) (hwf : WF2 c) (s : State) (g : Ghost) (ins : Array BankIn)
    (hleg : ∀ j, j < c.nbm → C02.legal c.bm s.bms[j]! (g.d j) (cmdOfBm c s ins j) = true)
    (hf : s.fsm = .read ∨ s.fsm = .write) (b : Banks) (hb : ∀ j, j < c.nbm → b j = g.d j) :
    ∃ b', cycleStep (monCfgB c) (servedOf c s ins) b ((step c s ins).1.dfi.map C02.toPhase) = some b' ∧
      ∀ j, j < c.nbm → b' j = (gNext c s g ins).d j := by
  have hn := hwf.nph; have hrdp := hwf.rdp; have hwrp := hwf.wrp
  generalize hpr : (if s.fsm = .read then c.rdphase else c.wrphase) = pr
  generalize hpc : (pr + c.nphases - 1) % c.nphases = pc
  have hprlt : pr < c.nphases := by rw [← hpr]; split <;> assumption
  have hpclt : pc < c.nphases := by rw [← hpc]; exact Nat.mod_lt _ (by omega)
  have hsteer : ∀ i, steerSel c s.fsm i = (if i = pc then Sel.cmd else if i = pr then Sel.req else Sel.nop) := by
    intro i; rw [steer_active c s hf i, hpr, hpc]
  have hone_t : (c.nphases == 1) = true → pc = 0 ∧ pr = 0 := by
    intro h1; have : c.nphases = 1 := by simpa using h1
    omega
  have hone_f : (c.nphases == 1) = false → pc ≠ pr := by
    intro h1; have h2 : c.nphases ≠ 1 := by simpa using h1
    rw [← hpc]
    by_cases h0 : pr = 0
    · subst h0; simp; omega
    · have : pr + c.nphases - 1 = (pr - 1) + c.nphases := by omega
      rw [this, Nat.add_mod_right, Nat.mod_eq_of_lt (by omega)]; omega
  have hrA := comb_req c s ins hwf.abits
  have hcA := comb_cmd c s ins
  have hex := acc_exclusive c s ins hwf.abits
  generalize hk : combOf c s ins = k at *
  -- where each bank machine's command sits
  let ph : Nat → Option Nat := fun j =>
    if k.cmdAccept = true ∧ j = s.grantCmd then some pc else if k.reqAccept = true ∧ j = s.grantReq then some pr else none
  let fin : Banks := fun j => C02.dramStep (b j) (if bmReadyOf c s ins j then classify (reqJ c s ins j) (apOf c s ins j) else .nop)
  have hbr : ∀ j, bmReadyOf c s ins j = ((k.reqAccept && s.grantReq == j) || (k.cmdAccept && s.grantCmd == j)) := by
    intro j; rw [bmReady_eq, hk]
  obtain ⟨b', h1, h2⟩ := cycle_pointwise (monCfgB c) (servedOf c s ins) ((step c s ins).1.dfi.map C02.toPhase) b fin ph c.nphases (by
    intro i hi bb hbb
    rw [phs_get c s ins i hi]
    unfold dfiNext
    rw [hsteer i, hk]
    by_cases hipc : i = pc
    · simp only [hipc, if_true]
      cases hone : (c.nphases == 1)
      · -- several phases: the command chooser
        simp only [Bool.false_eq_true, if_false]
        have hne := hone_f hone
        obtain ⟨b2, hb2, hb3⟩ := acc_phase c hwf s g ins hleg k.cCmd k.cmdAccept s.grantCmd pc (by
            intro ha
            obtain ⟨_, hlt, _, hch, hr, hw⟩ := hcA ha
            refine ⟨hlt, hch, by rw [hbr]; simp [ha], fun hcas => ?_⟩
            have := (req_facts c.bm s.bms[s.grantCmd]! (ins[s.grantCmd]!).valid (ins[s.grantCmd]!).we (ins[s.grantCmd]!).addr (roOf c s).valid hwf.abits).2.1 hcas
            have h2 : (reqJ c s ins s.grantCmd).isRead = !(reqJ c s ins s.grantCmd).isWrite := this.2.1
            rw [hr, hw] at h2; cases h2) bb (by
            intro ha
            obtain ⟨_, hlt, _⟩ := hcA ha
            rw [hbb, ← hb _ hlt]
            simp [ph, ha, doneAt, hipc])
        refine ⟨b2, hb2, fun j => ?_⟩
        rw [hb3 j, hbb j]
        by_cases hj : k.cmdAccept = true ∧ j = s.grantCmd
        · obtain ⟨ha, hj⟩ := hj
          obtain ⟨_, hlt, _⟩ := hcA ha
          subst hj
          simp only [ph, ha, and_self, if_true, doneAt, hipc, Nat.lt_irrefl, decide_false, Bool.false_eq_true, if_false,
            Nat.lt_succ_self, decide_true, fin, hbr, beq_self_eq_true, Bool.and_true, Bool.or_true, hb _ hlt]
        · have hj' : ¬ (k.cmdAccept = true ∧ j = s.grantCmd) := hj
          simp only [hj', if_false, ph, hipc]
          by_cases hjr : k.reqAccept = true ∧ j = s.grantReq
          · simp only [hjr, and_self, if_true, doneAt]
            have : (decide (pr < pc + 1)) = decide (pr < pc) := by
              have : pr ≠ pc := fun e => hne e.symm
              by_cases hlt : pr < pc <;> simp [hlt] <;> omega
            rw [this]
          · simp [hjr, doneAt]
      · -- a single phase: everything goes through the request chooser
        simp only [if_true]
        obtain ⟨hpc0, hpr0⟩ := hone_t hone
        obtain ⟨b2, hb2, hb3⟩ := acc_phase c hwf s g ins hleg k.cReq k.reqAccept s.grantReq pc (by
            intro ha
            obtain ⟨hlt, hact, hch, _, hcas⟩ := hrA ha
            refine ⟨hlt, hch, by rw [hbr]; simp [ha], fun hc => ?_⟩
            obtain ⟨hr, hw⟩ := hcas hc
            refine ⟨fun hrd => ?_, fun hwr => ?_, ?_⟩
            · rw [hrd] at hr
              have : s.fsm = .read := by simpa using hr.symm
              rw [hpc0, ← hpr0, ← hpr]; simp [this]
            · rw [hwr] at hw
              have : s.fsm = .write := by simpa using hw.symm
              rw [hpc0, ← hpr0, ← hpr]; simp [this]
            · have hcc : k.cReq.cas = true := by rw [hch.cas, hc]; rfl
              simp [servedOf, hk, ha, hcc]) bb (by
            intro ha
            obtain ⟨hlt, _⟩ := hrA ha
            have hnc : k.cmdAccept = false := by
              cases hca : k.cmdAccept
              · rfl
              · have := (hcA hca).1; rw [hone] at this; cases this
            rw [hbb, ← hb _ hlt]
            simp [ph, ha, hnc, doneAt, hipc, hpc0, hpr0])
        have hnc : k.cmdAccept = false := by
          cases hca : k.cmdAccept
          · rfl
          · have := (hcA hca).1; rw [hone] at this; cases this
        refine ⟨b2, hb2, fun j => ?_⟩
        rw [hb3 j, hbb j]
        by_cases hj : k.reqAccept = true ∧ j = s.grantReq
        · obtain ⟨ha, hj⟩ := hj
          obtain ⟨hlt, _⟩ := hrA ha
          subst hj
          simp [ph, ha, hnc, doneAt, hipc, hpc0, hpr0, fin, hbr, hb _ hlt]
        · simp [ph, hnc, hj, doneAt]
    · simp only [hipc, if_false]
      by_cases hipr : i = pr
      · -- the request phase (several phases)
        simp only [hipr, if_true]
        have hone : (c.nphases == 1) = false := by
          cases ho : (c.nphases == 1)
          · rfl
          · have := hone_t ho; omega
        have hne := hone_f hone
        obtain ⟨b2, hb2, hb3⟩ := acc_phase c hwf s g ins hleg k.cReq k.reqAccept s.grantReq pr (by
            intro ha
            obtain ⟨hlt, hact, hch, _, hcas⟩ := hrA ha
            refine ⟨hlt, hch, by rw [hbr]; simp [ha], fun hc => ?_⟩
            obtain ⟨hr, hw⟩ := hcas hc
            refine ⟨fun hrd => ?_, fun hwr => ?_, ?_⟩
            · rw [hrd] at hr
              have : s.fsm = .read := by simpa using hr.symm
              rw [← hpr]; simp [this]
            · rw [hwr] at hw
              have : s.fsm = .write := by simpa using hw.symm
              rw [← hpr]; simp [this]
            · have hcc : k.cReq.cas = true := by rw [hch.cas, hc]; rfl
              simp [servedOf, hk, ha, hcc]) bb (by
            intro ha
            obtain ⟨hlt, _⟩ := hrA ha
            have hnx : ¬ (k.cmdAccept = true ∧ s.grantReq = s.grantCmd) := fun ⟨h1, h2⟩ => hex h1 ha h2.symm
            rw [hbb, ← hb _ hlt]
            simp [ph, ha, hnx, doneAt, hipr])
        refine ⟨b2, hb2, fun j => ?_⟩
        rw [hb3 j, hbb j]
        by_cases hj : k.reqAccept = true ∧ j = s.grantReq
        · obtain ⟨ha, hj⟩ := hj
          obtain ⟨hlt, _⟩ := hrA ha
          subst hj
          have hnx : ¬ (k.cmdAccept = true ∧ s.grantReq = s.grantCmd) := fun ⟨h1, h2⟩ => hex h1 ha h2.symm
          simp [ph, ha, hnx, doneAt, hipr, fin, hbr, hb _ hlt]
        · have hj' : ¬ (k.reqAccept = true ∧ j = s.grantReq) := hj
          simp only [hj', if_false, ph, hipr]
          by_cases hjc : k.cmdAccept = true ∧ j = s.grantCmd
          · simp only [hjc, and_self, if_true, doneAt]
            have : (decide (pc < pr + 1)) = decide (pc < pr) := by
              by_cases hlt : pc < pr <;> simp [hlt] <;> omega
            rw [this]
          · simp [hjc, doneAt]
      · -- an idle phase
        simp only [hipr, if_false]
        rw [nop_phase_step]
        refine ⟨bb, rfl, fun j => ?_⟩
        rw [hbb j]
        have : doneAt (ph j) (i + 1) = doneAt (ph j) i := by
          simp only [ph]
          split
          · simp only [doneAt]; by_cases hlt : pc < i <;> simp [hlt] <;> omega
          · split
            · simp only [doneAt]; by_cases hlt : pr < i <;> simp [hlt] <;> omega
            · rfl
        rw [this])
  refine ⟨b', h1, fun j hj => ?_⟩
  have hpf : preaOf c s = false := preaOf_false c s (by rcases hf with e | e <;> rw [e] <;> simp)
  rw [h2 j, gnext_d, hpf, ← hb j hj]
  simp only [Bool.false_eq_true, if_false]
  by_cases hjc : k.cmdAccept = true ∧ j = s.grantCmd
  · simp [ph, hjc, doneAt, hpclt, fin]
  · by_cases hjr : k.reqAccept = true ∧ j = s.grantReq
    · have hnx : ¬ (k.cmdAccept = true ∧ s.grantReq = s.grantCmd) := fun ⟨h1, h2⟩ => hjc ⟨h1, by rw [hjr.2, h2]⟩
      obtain ⟨ha, hj2⟩ := hjr
      subst hj2
      simp [ph, hnx, ha, doneAt, hprlt, fin]
    · have : bmReadyOf c s ins j = false := by
        rw [hbr]
        simp only [Bool.or_eq_false_iff, Bool.and_eq_false_iff, beq_eq_false_iff_ne]
        constructor
        · by_cases h : k.reqAccept = true
          · right; intro e; exact hjr ⟨h, e.symm⟩
          · left; simpa using h
        · by_cases h : k.cmdAccept = true
          · right; intro e; exact hjc ⟨h, e.symm⟩
          · left; simpa using h
      simp [ph, hjc, hjr, doneAt, this, C02.dramStep]

/-- one controller cycle: the DFI registers after the clock edge are accepted by the specification monitor, whose
state then again equals the reference banks of the invariant -/
theorem dfi_cycle (c : Controller.Cfg) (hwf : WF2 c) (s : State) (g : Ghost) (ins : Array BankIn) (hins : InsOk c ins)
    (h : CInv c s g) (b : BankMon.Banks) (hb : ∀ j, j < c.nbm → b j = g.d j) :
    ∃ b', BankMon.cycleStep (monCfgB c) (servedOf c s ins) b ((step c s ins).1.dfi.map C02.toPhase) = some b' ∧
      (∀ j, j < c.nbm → b' j = (gNext c s g ins).d j) ∧ CInv c (step c s ins).1 (gNext c s g ins) := by
  obtain ⟨hinv', hleg⟩ := cinv_step c hwf.base s g ins hins h
  have key : ∃ b', BankMon.cycleStep (monCfgB c) (servedOf c s ins) b ((step c s ins).1.dfi.map C02.toPhase) = some b' ∧
      (∀ j, j < c.nbm → b' j = (gNext c s g ins).d j) := by
    cases hfs : s.fsm with
    | read => exact dfi_cycle_active c hwf s g ins hleg (Or.inl hfs) b hb
    | write => exact dfi_cycle_active c hwf s g ins hleg (Or.inr hfs) b hb
    | refresh => exact dfi_cycle_refresh c hwf s g ins h hfs b hb
    | wtr => exact dfi_cycle_idle c s g ins (by simp [hfs]) b hb
    | rtw k => exact dfi_cycle_idle c s g ins (by simp [hfs]) b hb
  obtain ⟨b', h1, h2⟩ := key
  exact ⟨b', h1, h2, hinv'⟩

/-- the reset values of the steerer's registers (all command lines low = MRS with nothing open) are accepted -/
theorem dfi_init (c : Controller.Cfg) :
    BankMon.cycleStep (monCfgB c) none BankMon.Banks.init ((init c).dfi.map C02.toPhase) = some BankMon.Banks.init := by
  obtain ⟨b', h1, h2⟩ := cycle_pointwise (monCfgB c) none ((init c).dfi.map C02.toPhase) BankMon.Banks.init BankMon.Banks.init
    (fun _ => none) c.nphases (by
      intro i hi bb hbb
      have hbb' : bb = BankMon.Banks.init := by funext j; rw [hbb j]; simp [doneAt]
      subst hbb'
      refine ⟨BankMon.Banks.init, ?_, fun j => by simp [doneAt]⟩
      have hsz : i < ((init c).dfi.map C02.toPhase).size := by simp [init, hi]
      rw [getElem!_pos ((init c).dfi.map C02.toPhase) i hsz]
      simp [init, C02.toPhase, BankMon.phaseStep, Dram.decode, BankMon.isRd, BankMon.isWr, BankMon.ranksClosed, BankMon.Banks.init])
  have : b' = BankMon.Banks.init := by funext j; rw [h2 j]; simp [doneAt]
  rw [this] at h1; exact h1

end CtlInv
