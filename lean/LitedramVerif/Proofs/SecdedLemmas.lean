/- Helper lemmas for C15 (no property statements). -/
import LitedramVerif.Model.Secded
namespace Secded

theorem xorAll_cons (b : Bool) (l : List Bool) : xorAll (b :: l) = (b != xorAll l) := by
  simp [xorAll, List.foldr]

/-- XOR over a duplicate-free position list when the word is toggled (by `s`) at one position. -/
theorem xorAll_map_toggle (L : List Nat) (hL : L.Nodup) (f : Word) (q : Nat) (s : Bool) :
    xorAll (L.map (fun c => f c != (c == q && s))) = (xorAll (L.map f) != (s && decide (q ∈ L))) := by
  induction L with
  | nil => simp [xorAll]
  | cons a L ih =>
    have hn := List.nodup_cons.mp hL
    rw [List.map_cons, List.map_cons, xorAll_cons, xorAll_cons, ih hn.2]
    by_cases haq : a = q
    · subst haq
      have : decide (a ∈ L) = false := by simpa using hn.1
      cases s <;> cases f a <;> cases xorAll (L.map f) <;> simp [this]
    · have h1 : (a == q) = false := by simpa using haq
      have h2 : decide (q ∈ a :: L) = decide (q ∈ L) := by
        have : q ≠ a := fun h => haq h.symm
        simp [List.mem_cons, this]
      rw [h1, h2]
      cases s <;> cases f a <;> cases xorAll (L.map f) <;> simp

/-- XOR is unchanged when the word changes only outside the list. -/
theorem xorAll_map_congr (L : List Nat) (f g : Word) (h : ∀ c ∈ L, f c = g c) :
    xorAll (L.map f) = xorAll (L.map g) := by
  rw [List.map_congr_left h]

theorem positions_nodup (n : Nat) : (positions n).Nodup := List.nodup_range' 1

theorem mem_positions {n c : Nat} : c ∈ positions n ↔ 1 ≤ c ∧ c ≤ n := by
  unfold positions
  rw [List.mem_range'_1]; omega

theorem cover_nodup (n i : Nat) : (cover n i).Nodup := (positions_nodup n).filter _

theorem mem_cover {n i c : Nat} : c ∈ cover n i ↔ (1 ≤ c ∧ c ≤ n) ∧ c.testBit i = true := by
  unfold cover; rw [List.mem_filter, mem_positions]

theorem zero_cons_positions_nodup (n : Nat) : (0 :: positions n).Nodup := by
  apply List.nodup_cons.mpr
  refine ⟨?_, positions_nodup n⟩
  intro h; have := mem_positions.mp h; omega

theorem isPow2_iff {p : Nat} : isPow2 p = true ↔ p ≠ 0 ∧ p = 2 ^ p.log2 := by
  unfold isPow2; simp

theorem isPow2_two_pow (i : Nat) : isPow2 (2 ^ i) = true := by
  rw [isPow2_iff]; refine ⟨Nat.ne_of_gt (Nat.two_pow_pos i), ?_⟩
  rw [Nat.log2_two_pow]

/-- a power of two with bit `i` set is `2^i` -/
theorem pow2_testBit {c i : Nat} (hc : isPow2 c = true) (hb : c.testBit i = true) : c = 2 ^ i := by
  obtain ⟨_, h2⟩ := isPow2_iff.mp hc
  rw [h2, Nat.testBit_two_pow] at hb
  have : c.log2 = i := by simpa using hb
  rw [h2, this]

/-- positions ≤ n are below `2^(nsyn n)` -/
theorem lt_two_pow_nsyn {n c : Nat} (h : c ≤ n) : c < 2 ^ nsyn n := by
  unfold nsyn; exact Nat.lt_of_le_of_lt h Nat.lt_log2_self

/-- a bit that is set in a position ≤ n is one of the syndrome bits in use -/
theorem testBit_lt_nsyn {n c i : Nat} (h : c ≤ n) (hb : c.testBit i = true) : i < nsyn n := by
  have hlt := lt_two_pow_nsyn h
  refine Decidable.byContradiction fun hge => ?_
  have hge : nsyn n ≤ i := Nat.le_of_not_lt hge
  have : c < 2 ^ i := Nat.lt_of_lt_of_le hlt (Nat.pow_le_pow_right (by decide) hge)
  rw [Nat.testBit_lt_two_pow this] at hb
  exact Bool.false_ne_true hb

end Secded
