/-
Helper lemmas (no property statements): precharge / activate commands of a bank machine under *arbitrary* traffic, controllers
with several phases (the command chooser serves row commands only, the request chooser column commands only).
 * `rowCmd_kind`, `vCmd_row`, `bmReady_row`   a row command is visible to the command chooser whatever the FSM does, and only
                                              that chooser can accept it
 * `muxWait_general`   the READ/WRITE/RTW/WTR FSM with reads and writes arriving: in RTW/WTR the wait goes down, in READ/WRITE
                       it is at most `muxCap`; REFRESH is not entered while some bank machine offers a row command
 * `row_step`          `omegaA` (round-robin distance · (rasInc+1) + tRRD/tFAW wait) goes down in READ/WRITE, does not grow otherwise
 * `psiR`              = omegaA · (muxCap + 1) + muxWait: falls on every clock edge until the command is accepted (`psiR_step`)
-/
import LitedramVerif.Proofs.CtlLive
namespace CtlLive
open Controller Hw CtlInv BmLive

/-! ### row commands (PRECHARGE / ACTIVATE) under arbitrary traffic, several phases -/
/-- bank machine `j` offers a precharge or an activate -/
def rowCmd (c : Cfg) (s : State) (ins : Array BankIn) (j : Nat) : Bool := (reqJ c s ins j).valid && !(reqJ c s ins j).cas

theorem rowCmd_kind (c : Cfg) (hab : 11 ≤ c.bm.abits) (s : State) (ins : Array BankIn) (j : Nat) (h : rowCmd c s ins j = true) :
    (reqJ c s ins j).valid = true ∧ (reqJ c s ins j).cas = false ∧ (reqJ c s ins j).ras = true ∧
    (reqJ c s ins j).isRead = false ∧ (reqJ c s ins j).isWrite = false := by
  simp only [rowCmd, Bool.and_eq_true, Bool.not_eq_true'] at h
  have hf := req_facts c.bm s.bms[j]! (ins[j]!).valid (ins[j]!).we (ins[j]!).addr (roOf c s).valid hab
  have h1 : (reqJ c s ins j).cas = true ∧ (reqJ c s ins j).ras = false ∨ (reqJ c s ins j).cas = false ∧ (reqJ c s ins j).ras = true := hf.1 h.1
  have h3 : (reqJ c s ins j).cas = false → (reqJ c s ins j).isRead = false ∧ (reqJ c s ins j).isWrite = false := hf.2.2.1
  rcases h1 with ⟨e, _⟩ | ⟨e1, e2⟩
  · rw [h.2] at e; cases e
  · exact ⟨h.1, e1, e2, (h3 e1).1, (h3 e1).2⟩

theorem vCmd_general (c : Cfg) (s : State) (ins : Array BankIn) (j : Nat) (hj : j < c.nbm) :
    (vCmdOf c s ins)[j]! = ((reqJ c s ins j).valid && (!(reqJ c s ins j).isRead && !(reqJ c s ins j).isWrite)) := by
  have hlt : j < (reqsOf c s ins).size := by rw [reqsOf_size]; exact hj
  unfold vCmdOf
  rw [getElem!_pos _ j (by simpa using hlt)]
  simp only [Array.getElem_map]
  have : (reqsOf c s ins)[j] = reqJ c s ins j := by
    rw [← reqsOf_get c s ins j hj, getElem!_pos _ j hlt]
  rw [this]
  simp only [chooserValid]
  cases (reqJ c s ins j).valid <;> cases (reqJ c s ins j).isRead <;> cases (reqJ c s ins j).isWrite <;> simp

theorem vCmd_row (c : Cfg) (hab : 11 ≤ c.bm.abits) (s : State) (ins : Array BankIn) (j : Nat) (hj : j < c.nbm)
    (h : rowCmd c s ins j = true) : (vCmdOf c s ins)[j]! = true := by
  obtain ⟨h1, _, _, h4, h5⟩ := rowCmd_kind c hab s ins j h
  rw [vCmd_general c s ins j hj, h1, h4, h5]; rfl

/-- several phases: a row command is only ever taken by the command chooser -/
theorem bmReady_row (c : Cfg) (hab : 11 ≤ c.bm.abits) (hone : (c.nphases == 1) = false) (s : State) (ins : Array BankIn) (b : Nat)
    (h : rowCmd c s ins b = true) : bmReadyOf c s ins b = ((combOf c s ins).cmdAccept && s.grantCmd == b) := by
  rw [bmReady_eq]
  cases hra : (combOf c s ins).reqAccept
  · simp
  · obtain ⟨_, hact, _, hm, _⟩ := comb_req c s ins hab hra
    obtain ⟨e1, e2⟩ := hm hone
    obtain ⟨_, _, _, h4, h5⟩ := rowCmd_kind c hab s ins b h
    have hne : (s.grantReq == b) = false := by
      cases hh : (s.grantReq == b)
      · rfl
      · have : s.grantReq = b := by simpa using hh
        rw [this, h4] at e1; rw [this, h5] at e2
        rcases hact with hf | hf <;> simp [hf] at e1 e2
    simp [hne]

def muxCap (c : Cfg) : Nat := remMax (some c.twtr) + 1 + c.readLatency

theorem reqAccept_inactive (c : Cfg) (s : State) (ins : Array BankIn) (h : ¬ (s.fsm = .read ∨ s.fsm = .write)) :
    (combOf c s ins).reqAccept = false ∧ (combOf c s ins).cmdAccept = false := by
  simp only [combOf]
  cases hf : s.fsm <;> simp_all

/-- next FSM state when the refresher is not being served -/
theorem fsm_general (c : Cfg) (s : State) (ins : Array BankIn) (hng : goRefreshOf c s ins = false) :
    (s.fsm = .read → (step c s ins).1.fsm = .read ∨ (step c s ins).1.fsm = .write ∨ (step c s ins).1.fsm = .rtw 0) ∧
    (s.fsm = .write → (step c s ins).1.fsm = .write ∨ (step c s ins).1.fsm = .wtr) ∧
    (s.fsm = .wtr → (step c s ins).1.fsm = (if s.twtr.ready then .read else .wtr)) ∧
    (∀ k, s.fsm = .rtw k → (step c s ins).1.fsm = (if k + 1 < c.readLatency - 1 then .rtw (k + 1) else .write)) := by
  rw [step_fsm]
  refine ⟨?_, ?_, ?_, ?_⟩
  · intro hf
    simp only [fsmNext, hf, hng, Bool.false_eq_true, if_false]
    split
    · split <;> simp
    · simp
  · intro hf
    simp only [fsmNext, hf, hng, Bool.false_eq_true, if_false]
    split <;> simp
  · intro hf; simp only [fsmNext, hf]
  · intro k hf; simp only [fsmNext, hf]

/-- the multiplexer FSM under arbitrary traffic, as long as it is not handed to the refresher -/
theorem muxWait_general (c : Cfg) (s : State) (ins : Array BankIn) (hk : MOk c s) (hnr : s.fsm ≠ .refresh)
    (hng : goRefreshOf c s ins = false) :
    (step c s ins).1.fsm ≠ .refresh ∧
    (muxWait c s = 0 ↔ (s.fsm = .read ∨ s.fsm = .write)) ∧
    ((s.fsm = .read ∨ s.fsm = .write) → muxWait c (step c s ins).1 ≤ muxCap c) ∧
    (¬ (s.fsm = .read ∨ s.fsm = .write) → muxWait c (step c s ins).1 + 1 ≤ muxWait c s) := by
  have hk' := mok_step c s ins hk
  have hw := rem_idle (some c.twtr) s.twtr hk.twtr
  have hle' := rem_le _ _ hk'.twtr
  obtain ⟨g1, g2, g3, g4⟩ := fsm_general c s ins hng
  refine ⟨?_, ?_, ?_, ?_⟩
  · cases hf : s.fsm with
    | read => rcases g1 hf with e | e | e <;> rw [e] <;> simp
    | write => rcases g2 hf with e | e <;> rw [e] <;> simp
    | refresh => exact absurd hf hnr
    | wtr => rw [g3 hf]; split <;> simp
    | rtw k => rw [g4 k hf]; split <;> simp
  · simp only [muxWait]; cases hf : s.fsm <;> simp_all
  · intro hact
    rcases hact with hf | hf
    · rcases g1 hf with e | e | e <;> simp only [muxWait, e, muxCap] <;> omega
    · rcases g2 hf with e | e <;> simp only [muxWait, e, muxCap] <;> omega
  · intro hin
    have hra := (reqAccept_inactive c s ins hin).1
    have hst : (step c s ins).1.twtr = TX.step (some c.twtr) s.twtr false := by
      rw [CtlTiming.step_twtr]; simp [CtlTiming.wrStrobeOf, hra]
    cases hf : s.fsm with
    | read => exact absurd (Or.inl hf) hin
    | write => exact absurd (Or.inr hf) hin
    | refresh => exact absurd hf hnr
    | wtr =>
      have e := g3 hf
      cases hr : s.twtr.ready
      · rw [hr] at e; simp only [Bool.false_eq_true, if_false] at e
        simp only [muxWait, e, hf, hst]
        have : rem (some c.twtr) s.twtr ≠ 0 := fun h0 => by rw [hw.2.mp h0] at hr; cases hr
        omega
      · rw [hr] at e; simp only [if_true] at e
        simp only [muxWait, e, hf]; omega
    | rtw k =>
      have e := g4 k hf
      by_cases hkk : k + 1 < c.readLatency - 1
      · rw [if_pos hkk] at e; simp only [muxWait, e, hf]; omega
      · rw [if_neg hkk] at e; simp only [muxWait, e, hf]; omega

/-- round-robin distance and tRRD/tFAW wait: what stands between a row command and its acceptance while the FSM is in READ/WRITE -/
def omegaA (c : Cfg) (s : State) (b : Nat) : Nat := C05.dist c.nbm s.grantCmd b * (rasInc c + 1) + rasWait c s

theorem dist_step_row (c : Cfg) (hab : 11 ≤ c.bm.abits) (s : State) (ins : Array BankIn) (hk : MOk c s) (b : Nat) (hb : b < c.nbm)
    (hv : rowCmd c s ins b = true) :
    let ce := cmdReadyOf c s ins || !(combOf c s ins).cCmd.valid
    (ce = false → (step c s ins).1.grantCmd = s.grantCmd) ∧
    (ce = true → s.grantCmd ≠ b → C05.dist c.nbm (step c s ins).1.grantCmd b + 1 ≤ C05.dist c.nbm s.grantCmd b) := by
  intro ce
  rw [step_grantCmd]
  refine ⟨?_, ?_⟩
  · intro h; simp only [rrStep]; rw [show (cmdReadyOf c s ins || !(combOf c s ins).cCmd.valid) = false from h]; simp
  · intro h hne
    have hn : 1 < c.nbm := by have := hk.gc; omega
    simp only [rrStep]
    rw [show (cmdReadyOf c s ins || !(combOf c s ins).cCmd.valid) = true from h]
    have : (decide (c.nbm > 1) && true) = true := by simp; omega
    rw [if_pos this]
    have := C05.rr_closer c.nbm s.grantCmd b (fun i => (vCmdOf c s ins)[i]!) hn hk.gc hb hne (vCmd_row c hab s ins b hb hv)
    omega

theorem actStrobe_multi (c : Cfg) (s : State) (ins : Array BankIn) (hone : (c.nphases == 1) = false) :
    CtlTiming.actStrobeOf c s ins = ((combOf c s ins).cmdAccept && (combOf c s ins).cCmd.activate) := by
  simp [CtlTiming.actStrobeOf, hone]

/-- while a row command of bank machine `b` is offered and not accepted: in READ/WRITE the bound goes down, otherwise it does not grow -/
theorem row_step (c : Cfg) (hab : 11 ≤ c.bm.abits) (hone : (c.nphases == 1) = false) (s : State) (ins : Array BankIn) (hk : MOk c s)
    (b : Nat) (hb : b < c.nbm) (hv : rowCmd c s ins b = true) (hnr : bmReadyOf c s ins b = false) :
    ((s.fsm = .read ∨ s.fsm = .write) → omegaA c (step c s ins).1 b + 1 ≤ omegaA c s b) ∧
    (¬ (s.fsm = .read ∨ s.fsm = .write) → omegaA c (step c s ins).1 b ≤ omegaA c s b) := by
  obtain ⟨hRi, hRany, _⟩ := rasWait_step c s ins hk
  obtain ⟨hD0, hD1⟩ := dist_step_row c hab s ins hk b hb hv
  have hstr := actStrobe_multi c s ins hone
  rw [bmReady_row c hab hone s ins b hv] at hnr
  rw [cmdAccept_eq] at hnr hstr
  have hcv := cCmd_valid c s ins
  have hvb := vCmd_row c hab s ins b hb hv
  simp only [omegaA]
  generalize hK : rasInc c + 1 = K at *
  have hmul : ∀ D' D : Nat, D' + 1 ≤ D → D' * K + K ≤ D * K := by
    intro D' D h
    have := Nat.mul_le_mul_right K h
    rw [Nat.add_mul, Nat.one_mul] at this; exact this
  constructor
  · intro hact
    have hcr : cmdReadyOf c s ins = (!(combOf c s ins).cCmd.activate || rasAllowedOf s) := by
      simp only [cmdReadyOf, hone, rasAllowedOf]; rcases hact with h | h <;> simp [h]
    by_cases hg : s.grantCmd = b
    · have hcv1 : (combOf c s ins).cCmd.valid = true := by rw [hcv, hg]; exact hvb
      have hcr0 : cmdReadyOf c s ins = false := by
        cases hh : cmdReadyOf c s ins
        · rfl
        · simp [hcv1, hh, hg] at hnr
      have hce : (cmdReadyOf c s ins || !(combOf c s ins).cCmd.valid) = false := by simp [hcr0, hcv1]
      have hra : rasAllowedOf s = false := by rw [hcr] at hcr0; simp at hcr0; exact hcr0.2
      have hs0 : CtlTiming.actStrobeOf c s ins = false := by rw [hstr, hcr0]; simp
      have := (hRi hs0).2 hra
      rw [hD0 hce]; omega
    · cases hcv1 : (combOf c s ins).cCmd.valid
      · have hce : (cmdReadyOf c s ins || !(combOf c s ins).cCmd.valid) = true := by simp [hcv1]
        have hs0 : CtlTiming.actStrobeOf c s ins = false := by rw [hstr, hcv1]; simp
        have h1 := (hRi hs0).1
        have h2 := hmul _ _ (hD1 hce hg)
        omega
      · cases hcr1 : cmdReadyOf c s ins
        · have hce : (cmdReadyOf c s ins || !(combOf c s ins).cCmd.valid) = false := by simp [hcv1, hcr1]
          have hra : rasAllowedOf s = false := by rw [hcr] at hcr1; simp at hcr1; exact hcr1.2
          have hs0 : CtlTiming.actStrobeOf c s ins = false := by rw [hstr, hcr1]; simp
          have := (hRi hs0).2 hra
          rw [hD0 hce]; omega
        · have hce : (cmdReadyOf c s ins || !(combOf c s ins).cCmd.valid) = true := by simp [hcr1]
          have h2 := hmul _ _ (hD1 hce hg)
          omega
  · intro hin
    have hcr0 : cmdReadyOf c s ins = false := by
      simp only [cmdReadyOf]
      cases hf : s.fsm <;> simp_all
    have hs0 : CtlTiming.actStrobeOf c s ins = false := by rw [hstr, hcr0]; simp
    have h1 := (hRi hs0).1
    cases hcv1 : (combOf c s ins).cCmd.valid
    · have hce : (cmdReadyOf c s ins || !(combOf c s ins).cCmd.valid) = true := by simp [hcv1]
      have hg : s.grantCmd ≠ b := fun hg => by rw [hcv, hg, hvb] at hcv1; cases hcv1
      have h2 := hmul _ _ (hD1 hce hg)
      omega
    · have hce : (cmdReadyOf c s ins || !(combOf c s ins).cCmd.valid) = false := by simp [hcv1, hcr0]
      rw [hD0 hce]; omega

theorem rowCmd_eq (c : Cfg) (s : State) (ins : Array BankIn) (j : Nat) : rowCmd c s ins j = bmValid s.bms[j]! := by
  simp only [rowCmd, reqJ, BankMachine.req, BankMachine.step, bmValid]
  generalize (s.bms[j]!) = sb
  by_cases hx : sb.fsm = .regular
  · rw [hx]
    cases (roOf c s).valid <;> cases sb.bufValid <;> cases sb.rowOpened <;>
      cases (sb.row == BankMachine.rowFull c.bm sb.buf.addr) <;> cases sb.twtp.ready <;> cases sb.tras.ready <;>
      cases sb.trc.ready <;> decide
  · have : (sb.fsm == BankMachine.St.regular) = false := by simpa using hx
    simp [this]

/-- an offered row command stays offered until it is accepted -/
theorem bmValid_stays (c : BankMachine.Cfg) (s : BankMachine.State) (i : BankMachine.In) (hv : bmValid s = true) (hr : i.ready = false) :
    bmValid (BankMachine.step c s i).1 = true := by
  simp only [bmValid, Bool.or_eq_true, Bool.and_eq_true, beq_iff_eq] at hv
  rcases hv with ⟨⟨hf, h1⟩, h2⟩ | ⟨hf, h1⟩
  · have e1 : (BankMachine.step c s i).1.fsm = .precharge := by simp [BankMachine.step, hf, hr]
    have e2 : (BankMachine.step c s i).1.twtp = s.twtp := by simp [BankMachine.step, hf, hr, TX.step, h1]
    have e3 : (BankMachine.step c s i).1.tras = s.tras := by
      simp only [BankMachine.step, hf, hr]; cases c.tRAS <;> simp [TX.step, h2]
    simp [bmValid, e1, e2, e3, h1, h2]
  · have e1 : (BankMachine.step c s i).1.fsm = .activate := by simp [BankMachine.step, hf, hr]
    have e2 : (BankMachine.step c s i).1.trc = s.trc := by
      simp only [BankMachine.step, hf, hr]; cases c.tRC <;> simp [TX.step, h1]
    simp [bmValid, e1, e2, h1]

theorem not_refresh_of_valid (c : Cfg) (s : State) (g : Ghost) (ins : Array BankIn) (h : CInv c s g) (b : Nat) (hb : b < c.nbm)
    (hv : bmValid s.bms[b]! = true) : s.fsm ≠ .refresh ∧ goRefreshOf c s ins = false := by
  have hnf : (s.bms[b]!).fsm ≠ .refresh := by
    simp only [bmValid, Bool.or_eq_true, Bool.and_eq_true, beq_iff_eq] at hv
    rcases hv with ⟨⟨hf, _⟩, _⟩ | ⟨hf, _⟩ <;> rw [hf] <;> simp
  constructor
  · intro hr; exact hnf (h.muxRef hr b hb)
  · cases hg : goRefreshOf c s ins
    · rfl
    · exact absurd (goRefresh_all c s ins hg b hb) hnf

/-- bound on the cycles until the row command of bank machine `b` is accepted, under any traffic -/
def psiR (c : Cfg) (s : State) (b : Nat) : Nat := omegaA c s b * (muxCap c + 1) + muxWait c s

theorem psiR_step (c : Cfg) (hwf : CtlInv.WF c) (hab : 11 ≤ c.bm.abits) (hone : (c.nphases == 1) = false) (s : State) (g : Ghost)
    (ins : Array BankIn) (h : CInv c s g) (hk : MOk c s) (b : Nat) (hb : b < c.nbm)
    (hv : bmValid s.bms[b]! = true) (hnr : bmReadyOf c s ins b = false) :
    bmValid (step c s ins).1.bms[b]! = true ∧ psiR c (step c s ins).1 b + 1 ≤ psiR c s b := by
  obtain ⟨hnref, hng⟩ := not_refresh_of_valid c s g ins h b hb hv
  obtain ⟨_, hM0, hMa, hMi⟩ := muxWait_general c s ins hk hnref hng
  have hrow : rowCmd c s ins b = true := by rw [rowCmd_eq]; exact hv
  obtain ⟨ra, ri⟩ := row_step c hab hone s ins hk b hb hrow hnr
  refine ⟨?_, ?_⟩
  · rw [step_bms c s ins b hb]
    exact bmValid_stays c.bm _ _ hv hnr
  · simp only [psiR]
    by_cases hact : s.fsm = .read ∨ s.fsm = .write
    · have h0 := hM0.mpr hact
      have h1 := ra hact
      have h2 := hMa hact
      have := Nat.mul_le_mul_right (muxCap c + 1) h1
      rw [Nat.add_mul, Nat.one_mul] at this
      omega
    · have h1 := ri hact
      have h2 := hMi hact
      have := Nat.mul_le_mul_right (muxCap c + 1) h1
      omega

theorem psiR_zero (c : Cfg) (hab : 11 ≤ c.bm.abits) (hone : (c.nphases == 1) = false) (s : State) (g : Ghost) (ins : Array BankIn)
    (h : CInv c s g) (hk : MOk c s) (b : Nat) (hb : b < c.nbm) (hv : bmValid s.bms[b]! = true) (h0 : psiR c s b = 0) :
    bmReadyOf c s ins b = true := by
  obtain ⟨hnref, hng⟩ := not_refresh_of_valid c s g ins h b hb hv
  obtain ⟨_, hM0, _, _⟩ := muxWait_general c s ins hk hnref hng
  obtain ⟨_, _, hR0⟩ := rasWait_step c s ins hk
  have hrow : rowCmd c s ins b = true := by rw [rowCmd_eq]; exact hv
  simp only [psiR, omegaA] at h0
  have hm : muxWait c s = 0 := by omega
  have hcap : 0 < muxCap c + 1 := by omega
  have hw : C05.dist c.nbm s.grantCmd b * (rasInc c + 1) + rasWait c s = 0 := by
    rcases Nat.mul_eq_zero.mp (by omega : (C05.dist c.nbm s.grantCmd b * (rasInc c + 1) + rasWait c s) * (muxCap c + 1) = 0) with e | e
    · exact e
    · omega
  have hr : rasWait c s = 0 := by omega
  have hd : C05.dist c.nbm s.grantCmd b = 0 := by
    rcases Nat.mul_eq_zero.mp (by omega : C05.dist c.nbm s.grantCmd b * (rasInc c + 1) = 0) with e | e
    · exact e
    · omega
  have hg : s.grantCmd = b := C05.dist_zero c.nbm _ _ hk.gc hb hd
  have hact := hM0.mp hm
  have hra := hR0 hr
  rw [bmReady_row c hab hone s ins b hrow, cmdAccept_eq, cCmd_valid, hg, vCmd_row c hab s ins b hb hrow]
  simp only [cmdReadyOf, hone]
  unfold rasAllowedOf at hra
  rcases hact with e | e <;> simp [e, hra]

def rowMax (c : Cfg) : Nat :=
  ((c.nbm - 1) * (rasInc c + 1) + (remMax c.tRRD + tfMax c.tFAW)) * (muxCap c + 1) + muxCap c

theorem psiR_le (c : Cfg) (s : State) (hk : MOk c s) (b : Nat) : psiR c s b ≤ rowMax c := by
  have h2 := rem_le _ _ hk.trrd
  have h3 := tfPot_le _ _ hk.tfaw
  have h1 := rem_le _ _ hk.twtr
  have h4 : muxWait c s ≤ muxCap c := by
    simp only [muxWait, muxCap]; cases s.fsm <;> simp only [] <;> omega
  have h5 : C05.dist c.nbm s.grantCmd b * (rasInc c + 1) ≤ (c.nbm - 1) * (rasInc c + 1) :=
    Nat.mul_le_mul_right _ (C05.dist_le c.nbm _ _ (by have := hk.gc; omega))
  have h6 : omegaA c s b ≤ (c.nbm - 1) * (rasInc c + 1) + (remMax c.tRRD + tfMax c.tFAW) := by
    simp only [omegaA, rasWait]; omega
  have := Nat.mul_le_mul_right (muxCap c + 1) h6
  simp only [psiR, rowMax]; omega

theorem row_cmd_accepted_from (c : Cfg) (hwf : CtlInv.WF c) (hab : 11 ≤ c.bm.abits) (hone : (c.nphases == 1) = false) (b : Nat)
    (hb : b < c.nbm) (inputs : List (Array BankIn)) :
    ∀ (s : State) (g : Ghost), CInv c s g → MOk c s → (∀ ins ∈ inputs, InsOk c ins) → bmValid s.bms[b]! = true →
      psiR c s b < inputs.length →
      ∃ k, k ≤ psiR c s b ∧ bmReadyOf c (runCtl c s (inputs.take k)) (inputs.getD k default) b = true := by
  induction inputs with
  | nil => intro s g _ _ _ _ hlen; simp at hlen
  | cons ins rest ih =>
    intro s g h hk hins hv hlen
    cases hr : bmReadyOf c s ins b
    · obtain ⟨hv', hd⟩ := psiR_step c hwf hab hone s g ins h hk b hb hv hr
      have h' := (cinv_step c hwf s g ins (hins ins (by simp)) h).1
      simp only [List.length_cons] at hlen
      obtain ⟨k, hk1, hk2⟩ := ih _ _ h' (mok_step c s ins hk) (fun x hx => hins x (by simp [hx])) hv' (by omega)
      exact ⟨k + 1, by omega, by simpa [runCtl] using hk2⟩
    · exact ⟨0, Nat.zero_le _, by simpa [runCtl] using hr⟩

end CtlLive
