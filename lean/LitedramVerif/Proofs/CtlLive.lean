/-
Helper lemmas (no property statements): all bank machines and the multiplexer together.
 * `LInv`        `MOk` + per bank machine: the command it offers has waited `w b` cycles and `w b + omegaG` stays below the
                 acceptance bound `accBound` handed to `BmLive.phi` (this discharges the fairness hypothesis of `BmLive.phi_step`)
 * `psi`         max over the bank machines of (`BmLive.phi` + 1 unless it grants) + `muxWait` + 1
 * `live_step`   one clock edge while the refresher waits: the multiplexer enters REFRESH, or `psi` goes down by at least one
 * `reach_refresh`  hence REFRESH is entered within `psi` ≤ `psiMax` cycles
-/
import LitedramVerif.Proofs.CtlLive1
namespace CtlLive
open Controller Hw CtlInv BmLive

/-! ### all bank machines together -/
def bmValid (s : BankMachine.State) : Bool :=
  (s.fsm == .precharge && s.twtp.ready && s.tras.ready) || (s.fsm == .activate && s.trc.ready)
def bmGnt (s : BankMachine.State) : Bool := s.fsm == .refresh && s.twtp.ready && s.tras.ready

def wStep (c : Cfg) (s : State) (ins : Array BankIn) (w : Nat → Nat) : Nat → Nat :=
  fun b => wNext c.bm s.bms[b]! (bmIn c s ins b) (w b)

structure LInv (c : Cfg) (s : State) (w : Nat → Nat) : Prop where
  mok : MOk c s
  wlt : ∀ b, b < c.nbm → w b < accBound c
  j : ∀ b, b < c.nbm → bmValid s.bms[b]! = true → w b + omegaG c s b < accBound c

def maxUpTo (f : Nat → Nat) : Nat → Nat
  | 0 => 0
  | n + 1 => max (maxUpTo f n) (f n)

theorem maxUpTo_le_pred (f g : Nat → Nat) (n : Nat) (h : ∀ b, b < n → f b ≤ g b - 1) : maxUpTo f n ≤ maxUpTo g n - 1 := by
  induction n with
  | zero => simp [maxUpTo]
  | succ n ih =>
    have h1 := ih (fun b hb => h b (by omega))
    have h2 := h n (by omega)
    simp only [maxUpTo]; omega

theorem maxUpTo_zero (g : Nat → Nat) (n : Nat) (h : maxUpTo g n = 0) : ∀ b, b < n → g b = 0 := by
  induction n with
  | zero => intro b hb; omega
  | succ n ih =>
    simp only [maxUpTo] at h
    intro b hb
    by_cases hbn : b = n
    · subst hbn; omega
    · exact ih (by omega) b (by omega)

theorem maxUpTo_le (g : Nat → Nat) (n B : Nat) (h : ∀ b, b < n → g b ≤ B) : maxUpTo g n ≤ B := by
  induction n with
  | zero => simp [maxUpTo]
  | succ n ih =>
    have h1 := ih (fun b hb => h b (by omega))
    have h2 := h n (by omega)
    simp only [maxUpTo]; omega

/-- bound on the cycles until the multiplexer enters REFRESH, as a function of the state -/
def psi (c : Cfg) (s : State) (w : Nat → Nat) : Nat :=
  maxUpTo (fun b => if bmGnt s.bms[b]! then 0 else phi c.bm (accBound c) s.bms[b]! (w b) + 1) c.nbm + muxWait c s + 1

theorem gnt_stable (c : BankMachine.Cfg) (s : BankMachine.State) (i : BankMachine.In) (hr : i.refresh = true) (hg : bmGnt s = true) :
    bmGnt (BankMachine.step c s i).1 = true := by
  simp only [bmGnt, Bool.and_eq_true, beq_iff_eq] at hg
  obtain ⟨⟨hf, h1⟩, h2⟩ := hg
  have e1 : (BankMachine.step c s i).1.fsm = .refresh := by simp [BankMachine.step, hf, hr]
  have e2 : (BankMachine.step c s i).1.twtp = s.twtp := by
    simp [BankMachine.step, hf, TX.step, h1]
  have e3 : (BankMachine.step c s i).1.tras = s.tras := by
    simp only [BankMachine.step, hf]
    cases c.tRAS <;> simp [TX.step, h2]
  simp [bmGnt, e1, e2, e3, h1, h2]

theorem pending_of_wait (c : Cfg) (s : State) (h : s.rf.fsm = .waitBm) : Pending c s := (out_waitBm c.rf s.rf h).1

theorem reqJ_valid (c : Cfg) (s : State) (ins : Array BankIn) (hp : Pending c s) (b : Nat) :
    (reqJ c s ins b).valid = bmValid s.bms[b]! ∧ (reqJ c s ins b).refreshGnt = bmGnt s.bms[b]! := by
  obtain ⟨_, _, _, _, h5, _, h7⟩ := reqJ_pending c s ins hp b
  exact ⟨h5, h7⟩

theorem goRefresh_of_all (c : Cfg) (s : State) (ins : Array BankIn) (hp : Pending c s)
    (h : ∀ b, b < c.nbm → bmGnt s.bms[b]! = true) : goRefreshOf c s ins = true := by
  unfold goRefreshOf
  rw [Array.all_eq_true]
  intro i hi
  have hi' : i < c.nbm := by rw [reqsOf_size] at hi; exact hi
  have : (reqsOf c s ins)[i] = reqJ c s ins i := by
    rw [← reqsOf_get c s ins i hi', getElem!_pos _ i hi]
  rw [this, (reqJ_valid c s ins hp i).2]
  exact h i hi'

/-- **one clock edge while the refresher waits**: the multiplexer enters REFRESH, or the bound `psi` goes down -/
theorem live_step (c : Cfg) (s : State) (ins : Array BankIn) (w : Nat → Nat) (h : LInv c s w) (hw : s.rf.fsm = .waitBm)
    (hnref : s.fsm ≠ .refresh) :
    (step c s ins).1.fsm = .refresh ∨
    (LInv c (step c s ins).1 (wStep c s ins w) ∧ (step c s ins).1.rf.fsm = .waitBm ∧
      psi c (step c s ins).1 (wStep c s ins w) + 1 ≤ psi c s w) := by
  by_cases hfr : (step c s ins).1.fsm = .refresh
  · left; exact hfr
  right
  have hp := pending_of_wait c s hw
  have hk := h.mok
  have hk' := mok_step c s ins hk
  have hA : omegaGMax c < accBound c := by unfold accBound; omega
  -- per bank machine
  have hbm : ∀ b, b < c.nbm →
      (bmGnt s.bms[b]! = true ∨
        phi c.bm (accBound c) (step c s ins).1.bms[b]! (wStep c s ins w b) + 1 ≤ phi c.bm (accBound c) s.bms[b]! (w b)) ∧
      wStep c s ins w b < accBound c ∧
      (bmValid (step c s ins).1.bms[b]! = true → wStep c s ins w b + omegaG c (step c s ins).1 b < accBound c) ∧
      (bmGnt s.bms[b]! = true → bmGnt (step c s ins).1.bms[b]! = true) := by
    intro b hb
    have hv := reqJ_valid c s ins hp b
    have hcv := cmdValid_req c.bm s.bms[b]! (bmIn c s ins b)
    have hreq : BankMachine.req c.bm s.bms[b]! (bmIn c s ins b).valid (bmIn c s ins b).we (bmIn c s ins b).addr (bmIn c s ins b).refresh = reqJ c s ins b := rfl
    rw [hreq, hv.1, hv.2] at hcv
    have hrf : (bmIn c s ins b).refresh = true := hp
    have hrdy : (bmIn c s ins b).ready = bmReadyOf c s ins b := rfl
    have hfair : (BankMachine.step c.bm s.bms[b]! (bmIn c s ins b)).2.cmdValid = true → w b + 1 = accBound c → (bmIn c s ins b).ready = true := by
      intro hcv1 hw1
      rw [hcv.1] at hcv1
      have := h.j b hb hcv1
      have h0 : omegaG c s b = 0 := by omega
      rw [hrdy]
      exact omegaG_zero c s ins hk hp hnref b hb (by rw [hv.1]; exact hcv1) h0
    have hphi := phi_step c.bm (accBound c) s.bms[b]! (bmIn c s ins b) (w b) (hk.bm b hb) hrf (h.wlt b hb) hfair
    rw [hcv.2, ← step_bms c s ins b hb] at hphi
    have hwlt : wStep c s ins w b < accBound c := by
      rcases hphi with hg | ⟨_, hlt⟩
      · simp only [wStep, wNext, hcv.1]
        have : bmValid s.bms[b]! = false := by
          simp only [bmGnt, Bool.and_eq_true, beq_iff_eq] at hg
          simp [bmValid, hg.1.1]
        simp [this]; omega
      · exact hlt
    refine ⟨?_, hwlt, ?_, ?_⟩
    · rcases hphi with hg | ⟨hd, _⟩
      · exact Or.inl hg
      · exact Or.inr hd
    · intro hv'
      have hle := omegaG_le c (step c s ins).1 hk' b
      by_cases hwait : bmValid s.bms[b]! = true ∧ bmReadyOf c s ins b = false
      · have hws : wStep c s ins w b = w b + 1 := by
          simp only [wStep, wNext, hcv.1, hwait.1, hrdy, hwait.2]; simp
        rcases omegaG_step c s ins hk hp hnref b hb (by rw [hv.1]; exact hwait.1) hwait.2 with hr | hd
        · exact absurd hr hfr
        · have := h.j b hb hwait.1
          omega
      · have hws : wStep c s ins w b = 0 := by
          simp only [wStep, wNext, hcv.1, hrdy]
          cases h1 : bmValid s.bms[b]! <;> cases h2 : bmReadyOf c s ins b <;> simp_all
        omega
    · intro hg
      rw [step_bms c s ins b hb]
      exact gnt_stable c.bm _ _ hrf hg
  refine ⟨⟨hk', fun b hb => (hbm b hb).2.1, fun b hb => (hbm b hb).2.2.1⟩, ?_, ?_⟩
  · rw [step_rf, RefresherInv.step_fsm]
    simp only [RefresherInv.fsmNext, hw]
    cases hf : s.fsm <;> simp_all
  · -- the potential
    obtain ⟨hM0, hM⟩ := muxWait_step c s ins hk hp (wrStrobe_false c s ins hk hp)
    have hM' : muxWait c (step c s ins).1 ≤ muxWait c s - 1 := by
      rcases hM with hr | hle
      · exact absurd hr hfr
      · exact hle
    have hmax := maxUpTo_le_pred
      (fun b => if bmGnt (step c s ins).1.bms[b]! then 0 else phi c.bm (accBound c) (step c s ins).1.bms[b]! (wStep c s ins w b) + 1)
      (fun b => if bmGnt s.bms[b]! then 0 else phi c.bm (accBound c) s.bms[b]! (w b) + 1) c.nbm
      (fun b hb => by
        obtain ⟨h1, _, _, h4⟩ := hbm b hb
        show (if bmGnt (step c s ins).1.bms[b]! then 0 else phi c.bm (accBound c) (step c s ins).1.bms[b]! (wStep c s ins w b) + 1) ≤
          (if bmGnt s.bms[b]! then 0 else phi c.bm (accBound c) s.bms[b]! (w b) + 1) - 1
        cases hg : bmGnt s.bms[b]!
        · cases hg' : bmGnt (step c s ins).1.bms[b]!
          · rcases h1 with hh | hh
            · rw [hg] at hh; cases hh
            · simp; omega
          · simp
        · rw [h4 hg]; simp)
    simp only [psi]
    by_cases hz : maxUpTo (fun b => if bmGnt s.bms[b]! then 0 else phi c.bm (accBound c) s.bms[b]! (w b) + 1) c.nbm = 0 ∧ muxWait c s = 0
    · -- everything granted and the multiplexer in READ/WRITE: it enters REFRESH
      exfalso
      have hall : ∀ b, b < c.nbm → bmGnt s.bms[b]! = true := by
        intro b hb
        have : (if bmGnt s.bms[b]! then 0 else phi c.bm (accBound c) s.bms[b]! (w b) + 1) = 0 := maxUpTo_zero _ _ hz.1 b hb
        cases hg : bmGnt s.bms[b]!
        · rw [hg] at this; simp at this
        · rfl
      have hgo := goRefresh_of_all c s ins hp hall
      have hact := hM0.mp hz.2
      apply hfr
      rw [fsm_pending c s ins hp]
      rcases hact with h1 | h1 | h1
      · simp [h1, hgo]
      · simp [h1, hgo]
      · exact absurd h1 hnref
    · omega

theorem psi_le (c : Cfg) (s : State) (w : Nat → Nat) (hk : MOk c s) : psi c s w ≤ psiMax c := by
  have h1 : maxUpTo (fun b => if bmGnt s.bms[b]! then 0 else phi c.bm (accBound c) s.bms[b]! (w b) + 1) c.nbm ≤ phiMax c.bm (accBound c) + 1 :=
    maxUpTo_le _ _ _ (fun b hb => by
      have := phi_le c.bm (accBound c) s.bms[b]! (w b) (hk.bm b hb)
      show (if bmGnt s.bms[b]! then 0 else phi c.bm (accBound c) s.bms[b]! (w b) + 1) ≤ _
      split <;> omega)
  have h2 := rem_le _ _ hk.twtr
  have h4 : muxWait c s ≤ remMax (some c.twtr) + 1 + c.readLatency := by
    simp only [muxWait]; cases s.fsm <;> simp only [] <;> omega
  simp only [psi, psiMax]; omega

theorem linv_zero (c : Cfg) (s : State) (hk : MOk c s) : LInv c s (fun _ => 0) where
  mok := hk
  wlt := fun _ _ => by unfold accBound; omega
  j := fun b _ _ => by have := omegaG_le c s hk b; unfold accBound; omega

def runCtl (c : Cfg) (s : State) (inputs : List (Array BankIn)) : State := inputs.foldl (fun st i => (step c st i).1) s

theorem reach_refresh (c : Cfg) (inputs : List (Array BankIn)) :
    ∀ (s : State) (w : Nat → Nat), LInv c s w → s.rf.fsm = .waitBm → psi c s w ≤ inputs.length →
      ∃ k, k ≤ psi c s w ∧ (runCtl c s (inputs.take k)).fsm = .refresh := by
  induction inputs with
  | nil =>
    intro s w _ _ hlen
    simp only [psi, List.length_nil] at hlen; omega
  | cons ins rest ih =>
    intro s w h hw hlen
    by_cases hr : s.fsm = .refresh
    · exact ⟨0, Nat.zero_le _, by simpa [runCtl] using hr⟩
    · rcases live_step c s ins w h hw hr with hf | ⟨h', hw', hd⟩
      · refine ⟨1, by simp only [psi]; omega, ?_⟩
        simpa [runCtl] using hf
      · simp only [List.length_cons] at hlen
        obtain ⟨k, hk, hkf⟩ := ih _ _ h' hw' (by omega)
        refine ⟨k + 1, by omega, ?_⟩
        simpa [runCtl] using hkf

end CtlLive
