/-
Helper lemmas (no property statements): the inductive invariant of the composed controller model
(`Model/Controller.lean`: N bank machines + multiplexer FSM + refresher) that the C02 top-level theorem
rests on.  It ties, for every bank machine, the machine's belief to the reference DRAM bank
(`C02.Inv`, Props/C02.lean), and ties the three FSMs of the refresh handshake together:
  * refresher idle            ⇒ multiplexer not in REFRESH, no bank machine in REFRESH
  * multiplexer in REFRESH    ⇒ every bank machine in REFRESH
  * refresher executing       ⇒ multiplexer in REFRESH
  * precharge-all accepted in this episode ⇒ every bank machine has seen it (ghost `cleared`)
The environment contract `C02.EnvOK` under which `C02.bm_step_legal` was proved is *discharged* here
(`env_ok`), so the bank-machine theorem holds inside the real composition.
-/
import LitedramVerif.Props.C02
import LitedramVerif.Proofs.RefresherInv
namespace CtlInv
open Controller Hw

theorem getElem!_map_range {α : Type} [Inhabited α] (n i : Nat) (f : Nat → α) (h : i < n) :
    ((Array.range n).map f)[i]! = f i := by
  rw [getElem!_pos _ _ (by simpa using h)]
  simp

def roOf (c : Cfg) (s : State) := Refresher.out c.rf s.rf
def reqsOf (c : Cfg) (s : State) (ins : Array BankIn) : Array BankMachine.Req :=
  (Array.range c.nbm).map fun i =>
    let x := ins[i]!
    BankMachine.req c.bm s.bms[i]! x.valid x.we x.addr (roOf c s).valid

def goRefreshOf (c : Cfg) (s : State) (ins : Array BankIn) : Bool := (reqsOf c s ins).all fun r => r.refreshGnt

def fsmNext (c : Cfg) (s : State) (ins : Array BankIn) : Fsm :=
  let reqs := reqsOf c s ins
  let readAvail := reqs.any fun r => r.valid && r.isRead
  let writeAvail := reqs.any fun r => r.valid && r.isWrite
  let maxRead := (antiStarve c.readTime s.readTimer (s.fsm == .read)).2
  let maxWrite := (antiStarve c.writeTime s.writeTimer (s.fsm == .write)).2
  let rtwEntry : Fsm := if c.readLatency - 1 > 0 then .rtw 0 else .write
  match s.fsm with
    | .read => if goRefreshOf c s ins then .refresh else if writeAvail && (!readAvail || maxRead) then rtwEntry else .read
    | .write => if goRefreshOf c s ins then .refresh else if readAvail && (!writeAvail || maxWrite) then .wtr else .write
    | .refresh => if (roOf c s).last then .read else .refresh
    | .wtr => if s.twtr.ready then .read else .wtr
    | .rtw k => if k + 1 < c.readLatency - 1 then .rtw (k + 1) else .write

theorem step_fsm (c : Cfg) (s : State) (ins : Array BankIn) : (step c s ins).1.fsm = fsmNext c s ins := rfl
theorem step_rf (c : Cfg) (s : State) (ins : Array BankIn) : (step c s ins).1.rf = Refresher.step c.rf s.rf (s.fsm == .refresh) := rfl

/-- the multiplexer's choosers and acceptance strobes -/
structure Comb where
  cReq : Chosen
  cCmd : Chosen
  reqAccept : Bool
  cmdAccept : Bool

def combOf (c : Cfg) (s : State) (ins : Array BankIn) : Comb :=
  let reqs := reqsOf c s ins
  let rasAllowed := s.trrd.ready && s.tfaw.ready
  let casAllowed := s.tccd.ready
  let inRead := s.fsm == .read
  let inWrite := s.fsm == .write
  let one := c.nphases == 1
  let vReq := reqs.map fun r => chooserValid r inRead inWrite one (one && rasAllowed)
  let vCmd := reqs.map fun r => chooserValid r false false false ((inRead || inWrite) && rasAllowed)
  let cReq := choose reqs vReq s.grantReq
  let cCmd := choose reqs vCmd s.grantCmd
  let active := inRead || inWrite
  let reqReady := active && (if one then casAllowed && (!cReq.activate || rasAllowed) else casAllowed)
  let cmdReady := active && !one && (!cCmd.activate || rasAllowed)
  { cReq, cCmd, reqAccept := cReq.valid && reqReady, cmdAccept := cCmd.valid && cmdReady }

def bmReadyOf (c : Cfg) (s : State) (ins : Array BankIn) (i : Nat) : Bool :=
  let k := combOf c s ins
  (k.reqAccept && s.grantReq == i) || (k.cmdAccept && s.grantCmd == i)

def bmIn (c : Cfg) (s : State) (ins : Array BankIn) (i : Nat) : BankMachine.In :=
  let x := ins[i]!
  ⟨x.valid, x.we, x.addr, (roOf c s).valid, bmReadyOf c s ins i⟩

theorem step_bms (c : Cfg) (s : State) (ins : Array BankIn) (i : Nat) (h : i < c.nbm) :
    (step c s ins).1.bms[i]! = (BankMachine.step c.bm s.bms[i]! (bmIn c s ins i)).1 := by
  have : (step c s ins).1.bms = ((Array.range c.nbm).map fun i => BankMachine.step c.bm s.bms[i]! (bmIn c s ins i)).map (·.1) := rfl
  rw [this, Array.map_map, getElem!_map_range _ _ _ h]
  rfl

theorem step_bms_size (c : Cfg) (s : State) (ins : Array BankIn) : (step c s ins).1.bms.size = c.nbm := by
  have : (step c s ins).1.bms = ((Array.range c.nbm).map fun i => BankMachine.step c.bm s.bms[i]! (bmIn c s ins i)).map (·.1) := rfl
  rw [this]; simp

theorem all_map_range {α : Type} (n : Nat) (f : Nat → α) (p : α → Bool) :
    ((Array.range n).map f).all p = true ↔ ∀ i, i < n → p (f i) = true := by
  rw [Array.all_eq_true]
  simp

theorem bm_fsm_refresh (c : BankMachine.Cfg) (s : BankMachine.State) (i : BankMachine.In) :
    (BankMachine.step c s i).1.fsm = .refresh ↔ (i.refresh = true ∧ (s.fsm = .regular ∨ s.fsm = .refresh)) := by
  simp only [BankMachine.step]
  cases hf : s.fsm <;> simp [BankMachine.enter] <;> grind

theorem req_refreshGnt (c : BankMachine.Cfg) (s : BankMachine.State) (v w : Bool) (a : Nat) (r : Bool)
    (h : (BankMachine.req c s v w a r).refreshGnt = true) : s.fsm = .refresh := by
  simp only [BankMachine.req, BankMachine.step] at h
  simp at h; exact h.1.1

theorem goRefresh_all (c : Cfg) (s : State) (ins : Array BankIn) (h : goRefreshOf c s ins = true) :
    ∀ i, i < c.nbm → (s.bms[i]!).fsm = .refresh := by
  unfold goRefreshOf reqsOf at h
  rw [all_map_range] at h
  intro i hi
  exact req_refreshGnt _ _ _ _ _ _ (h i hi)

/-! refresher output facts -/
theorem out_idle (c : Refresher.Cfg) (s : Refresher.State) (h : s.fsm = .idle) :
    (Refresher.out c s).valid = false ∧ (Refresher.out c s).last = false := by simp [Refresher.out, h]
theorem out_waitBm (c : Refresher.Cfg) (s : Refresher.State) (h : s.fsm = .waitBm) :
    (Refresher.out c s).valid = true ∧ (Refresher.out c s).last = false := by simp [Refresher.out, h]
theorem out_last_valid (c : Refresher.Cfg) (s : Refresher.State) :
    ((Refresher.out c s).last = true → (Refresher.out c s).valid = false ∧ RefresherInv.inRef s.fsm = true) ∧
    (RefresherInv.inRef s.fsm = true → (Refresher.out c s).valid = false → (Refresher.out c s).last = true) := by
  cases hf : s.fsm <;> simp [Refresher.out, hf, RefresherInv.inRef] <;> grind
theorem novalid_pd (c : Refresher.Cfg) (s : Refresher.State) (pd : Bool) (h : RefresherInv.Inv c s pd)
    (hi : RefresherInv.inRef s.fsm = true) (hv : (Refresher.out c s).valid = false) : pd = true := by
  obtain ⟨hcnt, hzcnt, hexcl, hregs, hexd, hzqd, hzn, hf⟩ := h
  cases hfs : s.fsm <;> simp only [hfs] at hf <;> simp [RefresherInv.inRef, hfs] at hi
  · simp only [Refresher.out, hfs, Refresher.seqDone] at hv
    rcases hf.2 with hp | h1
    · exact hp
    · have : s.exDone = false := by
        cases he : s.exDone
        · rfl
        · have := hexd he; omega
      simp [this] at hv
  · exact hf.2.2

structure Ghost where
  d : Nat → Option Nat
  cl : Nat → Bool
  pd : Bool

structure WF (c : Cfg) : Prop where
  nbm : 1 ≤ c.nbm
  rf : RefresherInv.WF c.rf
  hrow : c.bm.abits ≥ c.bm.rowbits

def preaOf (c : Cfg) (s : State) : Bool := RefresherInv.preaAcc c.rf s.rf (s.fsm == .refresh)

def cmdOfBm (c : Cfg) (s : State) (ins : Array BankIn) (i : Nat) : C02.Cmd :=
  let r := BankMachine.step c.bm s.bms[i]! (bmIn c s ins i)
  C02.cmdOf r.1 r.2 (bmReadyOf c s ins i)

def gNext (c : Cfg) (s : State) (g : Ghost) (ins : Array BankIn) : Ghost :=
  { d := fun i => if preaOf c s then none else C02.dramStep (g.d i) (cmdOfBm c s ins i)
    cl := fun i => C02.cleared' s.bms[i]! (BankMachine.step c.bm s.bms[i]! (bmIn c s ins i)).1 (preaOf c s) (g.cl i)
    pd := RefresherInv.pd' c.rf s.rf (s.fsm == .refresh) g.pd }

structure CInv (c : Cfg) (s : State) (g : Ghost) : Prop where
  size : s.bms.size = c.nbm
  bm : ∀ i, i < c.nbm → C02.Inv c.bm s.bms[i]! (g.d i) (g.cl i) ∧ C02.MemOk c.bm s.bms[i]!
  rf : RefresherInv.Inv c.rf s.rf g.pd
  idle : s.rf.fsm = .idle → s.fsm ≠ .refresh ∧ ∀ i, i < c.nbm → (s.bms[i]!).fsm ≠ .refresh
  muxRef : s.fsm = .refresh → ∀ i, i < c.nbm → (s.bms[i]!).fsm = .refresh
  inRef : RefresherInv.inRef s.rf.fsm = true → s.fsm = .refresh
  pdRef : g.pd = true → RefresherInv.inRef s.rf.fsm = true
  pdCl : g.pd = true → ∀ i, i < c.nbm → g.cl i = true

def InsOk (c : Cfg) (ins : Array BankIn) : Prop := ∀ i, i < c.nbm → BankMachine.rowFull c.bm (ins[i]!).addr < 2 ^ c.bm.rowbits

theorem env_ok (c : Cfg) (s : State) (g : Ghost) (ins : Array BankIn) (h : CInv c s g) (i : Nat) (hi : i < c.nbm) :
    C02.EnvOK s.bms[i]! (bmIn c s ins i) (preaOf c s) (g.cl i) := by
  constructor
  · intro hp
    simp only [preaOf, RefresherInv.preaAcc, Bool.and_eq_true, beq_iff_eq] at hp
    exact h.muxRef hp.1.1.1.2 i hi
  · intro hf hr
    have hv : (Refresher.out c.rf s.rf).valid = false := hr
    have hni : s.rf.fsm ≠ .idle := fun hidle => (h.idle hidle).2 i hi hf
    have hnw : s.rf.fsm ≠ .waitBm := fun hw => by have := (out_waitBm c.rf s.rf hw).1; rw [hv] at this; cases this
    have hin : RefresherInv.inRef s.rf.fsm = true := by
      cases hfs : s.rf.fsm <;> simp_all [RefresherInv.inRef]
    left
    exact h.pdCl (novalid_pd c.rf s.rf g.pd h.rf hin hv) i hi

theorem rf_next_facts (c : Refresher.Cfg) (s : Refresher.State) (ready : Bool) :
    ((Refresher.step c s ready).fsm = .idle → (Refresher.out c s).valid = false ∧
        (RefresherInv.inRef s.fsm = true → (Refresher.out c s).last = true)) ∧
    (RefresherInv.inRef (Refresher.step c s ready).fsm = true → (Refresher.out c s).valid = true ∧
        (Refresher.out c s).last = false ∧ ((s.fsm = .waitBm ∧ ready = true) ∨ RefresherInv.inRef s.fsm = true)) := by
  rw [RefresherInv.step_fsm]
  cases hf : s.fsm <;> simp [RefresherInv.fsmNext, Refresher.out, hf, RefresherInv.inRef] <;> grind

theorem mux_next_refresh (c : Cfg) (s : State) (ins : Array BankIn) :
    fsmNext c s ins = .refresh ↔
      ((s.fsm = .read ∨ s.fsm = .write) ∧ goRefreshOf c s ins = true) ∨ (s.fsm = .refresh ∧ (roOf c s).last = false) := by
  unfold fsmNext
  cases hf : s.fsm <;> simp only [] <;> (repeat' split) <;> simp_all

theorem cinv_step (c : Cfg) (hwf : WF c) (s : State) (g : Ghost) (ins : Array BankIn) (hins : InsOk c ins)
    (h : CInv c s g) :
    CInv c (step c s ins).1 (gNext c s g ins) ∧
    (∀ i, i < c.nbm → C02.legal c.bm s.bms[i]! (g.d i) (cmdOfBm c s ins i) = true) := by
  have hrfstep := RefresherInv.inv_step c.rf hwf.rf s.rf g.pd (s.fsm == .refresh) h.rf
      (fun hi => by simp [h.inRef hi])
  have hbm : ∀ i, i < c.nbm →
      C02.legal c.bm s.bms[i]! (g.d i) (cmdOfBm c s ins i) = true ∧
      C02.Inv c.bm (BankMachine.step c.bm s.bms[i]! (bmIn c s ins i)).1 ((gNext c s g ins).d i) ((gNext c s g ins).cl i) := by
    intro i hi
    exact C02.bm_step_legal c.bm s.bms[i]! (g.d i) (g.cl i) (bmIn c s ins i) (preaOf c s)
      (env_ok c s g ins h i hi) (h.bm i hi).2.2 hwf.hrow (h.bm i hi).1
  refine ⟨⟨step_bms_size c s ins, ?_, ?_, ?_, ?_, ?_, ?_, ?_⟩, fun i hi => (hbm i hi).1⟩
  · intro i hi
    rw [step_bms c s ins i hi]
    exact ⟨(hbm i hi).2, C02.memok_step c.bm _ _ (h.bm i hi).2 (hins i hi)⟩
  · rw [step_rf]; exact hrfstep
  all_goals
    have hrf := rf_next_facts c.rf s.rf (s.fsm == .refresh)
    have hol := out_last_valid c.rf s.rf
    have hmx := mux_next_refresh c s ins
    have h0 : 0 < c.nbm := hwf.nbm
    have hvalid_of_muxnext : fsmNext c s ins = .refresh → (roOf c s).valid = true ∧ ∀ i, i < c.nbm → (s.bms[i]!).fsm = .refresh := by
      intro hn
      rcases hmx.mp hn with ⟨hrw, hgo⟩ | ⟨hr, hl⟩
      · have hall := goRefresh_all c s ins hgo
        refine ⟨?_, hall⟩
        have hni : s.rf.fsm ≠ .idle := fun hi => (h.idle hi).2 0 h0 (hall 0 h0)
        have hnr : RefresherInv.inRef s.rf.fsm ≠ true := fun hi => by have := h.inRef hi; rcases hrw with e | e <;> rw [e] at this <;> cases this
        have hw : s.rf.fsm = .waitBm := by cases hfs : s.rf.fsm <;> simp_all [RefresherInv.inRef]
        exact (out_waitBm c.rf s.rf hw).1
      · refine ⟨?_, h.muxRef hr⟩
        have hni : s.rf.fsm ≠ .idle := fun hi => (h.idle hi).1 hr
        cases hfs : s.rf.fsm
        · exact absurd hfs hni
        · exact (out_waitBm c.rf s.rf hfs).1
        · cases hv : (roOf c s).valid
          · have := hol.2 (by simp [RefresherInv.inRef, hfs]) hv; unfold roOf at hl; rw [hl] at this; cases this
          · rfl
        · cases hv : (roOf c s).valid
          · have := hol.2 (by simp [RefresherInv.inRef, hfs]) hv; unfold roOf at hl; rw [hl] at this; cases this
          · rfl
  · -- idle'
    rw [step_rf, step_fsm]
    intro hidle
    obtain ⟨hv, hlast⟩ := hrf.1 hidle
    constructor
    · intro hn
      have := (hvalid_of_muxnext hn).1
      unfold roOf at this; rw [hv] at this; cases this
    · intro i hi
      rw [step_bms c s ins i hi, Ne, bm_fsm_refresh]
      intro hc
      have : (bmIn c s ins i).refresh = (Refresher.out c.rf s.rf).valid := rfl
      rw [this, hv] at hc; cases hc.1
  · -- muxRef'
    rw [step_fsm]
    intro hn i hi
    obtain ⟨hv, hall⟩ := hvalid_of_muxnext hn
    rw [step_bms c s ins i hi, bm_fsm_refresh]
    exact ⟨hv, Or.inr (hall i hi)⟩
  · -- inRef'
    rw [step_rf, step_fsm]
    intro hi
    obtain ⟨hv, hl, hcase⟩ := hrf.2 hi
    have hsr : s.fsm = .refresh := by
      rcases hcase with ⟨_, hr⟩ | hr
      · simpa using hr
      · exact h.inRef hr
    exact hmx.mpr (Or.inr ⟨hsr, hl⟩)
  · -- pdRef'
    intro hp
    simp only [gNext, RefresherInv.pd', Bool.and_eq_true] at hp
    rw [step_rf]; exact hp.1
  · -- pdCl'
    intro hp i hi
    simp only [gNext, RefresherInv.pd', Bool.and_eq_true, Bool.or_eq_true] at hp
    obtain ⟨hv, hl, hcase⟩ := hrf.2 hp.1
    have hsr : s.fsm = .refresh := by
      rcases hcase with ⟨_, hr⟩ | hr
      · simpa using hr
      · exact h.inRef hr
    have hb := h.muxRef hsr i hi
    have hb' : (BankMachine.step c.bm s.bms[i]! (bmIn c s ins i)).1.fsm = .refresh :=
      (bm_fsm_refresh _ _ _).mpr ⟨hv, Or.inr hb⟩
    simp only [gNext, C02.cleared', hb, hb', beq_self_eq_true, Bool.true_and, Bool.or_eq_true]
    rcases hp.2 with hpd | hpa
    · exact Or.inl (h.pdCl hpd i hi)
    · exact Or.inr hpa

/-- the refresher's accepted command: nothing, the precharge-all (bank machines all in REFRESH), or - with every DRAM bank
already precharged - auto-refresh / ZQ calibration -/
theorem rf_cmd_legal (c : Cfg) (s : State) (g : Ghost) (h : CInv c s g)
    (hacc : (roOf c s).valid = true ∧ s.fsm = .refresh) :
    (∀ i, i < c.nbm → (s.bms[i]!).fsm = .refresh) ∧
    (RefresherInv.regsAre c.rf s.rf .none ∨ RefresherInv.regsAre c.rf s.rf .prea ∨
      ((RefresherInv.regsAre c.rf s.rf .ref ∨ RefresherInv.regsAre c.rf s.rf .zqc) ∧ ∀ i, i < c.nbm → g.d i = none)) := by
  refine ⟨h.muxRef hacc.2, ?_⟩
  rcases RefresherInv.acc_cases c.rf s.rf g.pd h.rf hacc.1 with h1 | h1 | ⟨hpd, h1⟩
  · exact Or.inl h1
  · exact Or.inr (Or.inl h1)
  · refine Or.inr (Or.inr ⟨h1, fun i hi => ?_⟩)
    have hinv := (h.bm i hi).1
    have hfs := h.muxRef hacc.2 i hi
    have hcl := h.pdCl hpd i hi
    simp only [C02.Inv, hfs] at hinv
    exact hinv hcl

def g0 : Ghost := { d := fun _ => none, cl := fun _ => false, pd := false }

theorem cinv_init (c : Cfg) (hwf : WF c) : CInv c (init c) g0 := by
  have hb : ∀ i, i < c.nbm → (init c).bms[i]! = BankMachine.State.init c.bm := by
    intro i hi
    simp only [init]
    rw [getElem!_pos _ _ (by simpa using hi)]
    simp
  refine ⟨by simp [init], ?_, RefresherInv.inv_init c.rf hwf.rf, ?_, ?_, ?_, ?_, ?_⟩
  · intro i hi
    rw [hb i hi]
    exact ⟨by simp [C02.Inv, BankMachine.State.init, g0], C02.memok_init c.bm⟩
  · intro _
    refine ⟨by simp [init], fun i hi => ?_⟩
    rw [hb i hi]; simp [BankMachine.State.init]
  · intro hc; simp [init] at hc
  · intro hc; simp [init, Refresher.init, RefresherInv.inRef] at hc
  · intro hc; simp [g0] at hc
  · intro hc; simp [g0] at hc

end CtlInv
