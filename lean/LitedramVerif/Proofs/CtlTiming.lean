/-
Helper lemmas (no property statements): the timing invariant of the composed controller against the ages of the
specification monitor `Spec/TimingMon.lean`.
 * events: the commands issued in a cycle (`evsOf`), characterised by which chooser accepted what (`any_bm`), and
   shown equal to the strobes the multiplexer's timers see (`any_isAct`, `any_isCas`, `any_isWr`)
 * `MInv` / `minv_step`  multiplexer level: tRRD, tFAW, tCCD, tWTR timers vs. ages; RD only with tWTR elapsed
 * `adv_bank`            the monitor's per-bank ages move exactly as `BmTiming.bAdvance` says
 * `all_allowed`         every issued command is allowed by the monitor (bank-machine, multiplexer and refresher rules)
 * `tinv_step`           the composed invariant is inductive
-/
import LitedramVerif.Proofs.DfiLegal
import LitedramVerif.Spec.TimingMon
import LitedramVerif.Props.C03
import LitedramVerif.Proofs.BmTiming
import LitedramVerif.Proofs.RfTiming
namespace CtlTiming
open Controller Hw CtlInv TimingMon BmTiming

/-- requirement table of the monitor: the controller's own settings, in controller cycles -/
def reqOf (c : Controller.Cfg) : Req :=
  { tRCD := c.bm.tRCD, tRP := c.bm.tRP, tRAS := c.bm.tRAS.getD 0, tRC := c.bm.tRC.getD 0, tRRD := c.tRRD.getD 0, tFAW := c.tFAW.getD 0,
    tCCD := c.tCCD, tWTP := c.bm.twtp, tWTR := c.twtr, tRFC := c.rf.tRFC, tZQCS := c.rf.tZQCS.getD 0, nbanks := c.nbm }

/-! ### the commands issued in a cycle, as monitor events -/
def bmEv (c : Controller.Cfg) (s : State) (ins : Array BankIn) (j : Nat) : Option Ev :=
  match cmdOfBm c s ins j with
  | .nop => none
  | .act _ => some (.act j)
  | .pre => some (.pre j)
  | .cas ap => some (if (reqJ c s ins j).isWrite then .wr j ap else .rd j ap)

def rfEv (c : Controller.Cfg) (s : State) : Option Ev :=
  if (roOf c s).valid && (s.fsm == .refresh) then
    (if s.rf.ras && s.rf.we && !s.rf.cas then some .prea else if s.rf.cas && s.rf.ras && !s.rf.we then some .ref
     else if s.rf.we && !s.rf.ras && !s.rf.cas then some .zqc else none)
  else none

def evsOf (c : Controller.Cfg) (s : State) (ins : Array BankIn) : List Ev :=
  (List.range c.nbm).filterMap (bmEv c s ins) ++ (rfEv c s).toList

theorem mem_evsOf (c : Controller.Cfg) (s : State) (ins : Array BankIn) (e : Ev) :
    e ∈ evsOf c s ins ↔ (∃ j, j < c.nbm ∧ bmEv c s ins j = some e) ∨ rfEv c s = some e := by
  simp [evsOf, List.mem_filterMap]

theorem any_evsOf (c : Controller.Cfg) (s : State) (ins : Array BankIn) (p : Ev → Bool) :
    (evsOf c s ins).any p = true ↔ (∃ j, j < c.nbm ∧ ∃ e, bmEv c s ins j = some e ∧ p e = true) ∨ (∃ e, rfEv c s = some e ∧ p e = true) := by
  rw [List.any_eq_true]
  constructor
  · rintro ⟨e, he, hp⟩
    rcases (mem_evsOf c s ins e).mp he with ⟨j, hj, h⟩ | h
    · exact Or.inl ⟨j, hj, e, h, hp⟩
    · exact Or.inr ⟨e, h, hp⟩
  · rintro (⟨j, hj, e, h, hp⟩ | ⟨e, h, hp⟩)
    · exact ⟨e, (mem_evsOf c s ins e).mpr (Or.inl ⟨j, hj, h⟩), hp⟩
    · exact ⟨e, (mem_evsOf c s ins e).mpr (Or.inr h), hp⟩

/-- the command of bank machine `j`, from the choosers' point of view -/
theorem cmdOfBm_eq (c : Controller.Cfg) (s : State) (ins : Array BankIn) (j : Nat) :
    cmdOfBm c s ins j = if bmReadyOf c s ins j then classify (reqJ c s ins j) (apOf c s ins j) else .nop := by
  have := bm_cmdOf c.bm s.bms[j]! (bmIn c s ins j)
  have hr : (bmIn c s ins j).ready = bmReadyOf c s ins j := rfl
  rw [hr] at this
  exact this

/-- the strobes the multiplexer's timers see -/
def actStrobeOf (c : Controller.Cfg) (s : State) (ins : Array BankIn) : Bool :=
  let k := combOf c s ins
  if c.nphases == 1 then k.reqAccept && k.cReq.activate else k.cmdAccept && k.cCmd.activate
def casStrobeOf (c : Controller.Cfg) (s : State) (ins : Array BankIn) : Bool :=
  let k := combOf c s ins
  k.reqAccept && (k.cReq.isWrite || k.cReq.isRead)
def wrStrobeOf (c : Controller.Cfg) (s : State) (ins : Array BankIn) : Bool :=
  let k := combOf c s ins
  k.reqAccept && k.cReq.isWrite

theorem step_trrd (c : Controller.Cfg) (s : State) (ins : Array BankIn) :
    (step c s ins).1.trrd = TX.step c.tRRD s.trrd (actStrobeOf c s ins) := rfl
theorem step_tfaw (c : Controller.Cfg) (s : State) (ins : Array BankIn) :
    (step c s ins).1.tfaw = TF.step c.tFAW s.tfaw (actStrobeOf c s ins) := rfl
theorem step_tccd (c : Controller.Cfg) (s : State) (ins : Array BankIn) :
    (step c s ins).1.tccd = TX.step (some c.tCCD) s.tccd (casStrobeOf c s ins) := rfl
theorem step_twtr (c : Controller.Cfg) (s : State) (ins : Array BankIn) :
    (step c s ins).1.twtr = TX.step (some c.twtr) s.twtr (wrStrobeOf c s ins) := rfl

def evOfReq (r : BankMachine.Req) (j : Nat) (ap : Bool) : Ev :=
  if r.cas then (if r.isWrite then .wr j ap else .rd j ap) else if r.we then .pre j else .act j

theorem bmEv_ready (c : Controller.Cfg) (hab : 11 ≤ c.bm.abits) (s : State) (ins : Array BankIn) (j : Nat)
    (hr : bmReadyOf c s ins j = true) (hv : (reqJ c s ins j).valid = true) :
    bmEv c s ins j = some (evOfReq (reqJ c s ins j) j (apOf c s ins j)) := by
  have hf := req_facts c.bm s.bms[j]! (ins[j]!).valid (ins[j]!).we (ins[j]!).addr (roOf c s).valid hab
  have hf1 : (reqJ c s ins j).cas = true ∧ (reqJ c s ins j).ras = false ∨ (reqJ c s ins j).cas = false ∧ (reqJ c s ins j).ras = true := hf.1 hv
  simp only [bmEv, cmdOfBm_eq, hr, if_true, classify, hv, evOfReq]
  rcases hf1 with ⟨h1, h2⟩ | ⟨h1, h2⟩
  · simp [h1]
  · cases hw : (reqJ c s ins j).we <;> simp [h1, h2, hw]

theorem bmEv_notready (c : Controller.Cfg) (s : State) (ins : Array BankIn) (j : Nat)
    (hr : bmReadyOf c s ins j = false) : bmEv c s ins j = none := by
  simp [bmEv, cmdOfBm_eq, hr]

theorem bmReady_valid (c : Controller.Cfg) (hab : 11 ≤ c.bm.abits) (s : State) (ins : Array BankIn) (j : Nat) (hj : j < c.nbm)
    (hr : bmReadyOf c s ins j = true) : (reqJ c s ins j).valid = true := by
  rw [bmReady_eq] at hr
  simp only [Bool.or_eq_true, Bool.and_eq_true, beq_iff_eq] at hr
  rcases hr with ⟨ha, he⟩ | ⟨ha, he⟩
  · obtain ⟨_, _, hch, _⟩ := comb_req c s ins hab ha
    rw [← he]; exact hch.valid rfl
  · obtain ⟨_, _, _, hch, _⟩ := comb_cmd c s ins ha
    rw [← he]; exact hch.valid rfl

/-- which bank machine issues, and what: exactly the one behind an accepting chooser -/
theorem any_bm (c : Controller.Cfg) (hab : 11 ≤ c.bm.abits) (s : State) (ins : Array BankIn) (p : Ev → Bool) :
    (∃ j, j < c.nbm ∧ ∃ e, bmEv c s ins j = some e ∧ p e = true) ↔
    ((combOf c s ins).reqAccept = true ∧ p (evOfReq (reqJ c s ins s.grantReq) s.grantReq (apOf c s ins s.grantReq)) = true) ∨
    ((combOf c s ins).cmdAccept = true ∧ p (evOfReq (reqJ c s ins s.grantCmd) s.grantCmd (apOf c s ins s.grantCmd)) = true) := by
  constructor
  · rintro ⟨j, hj, e, he, hp⟩
    cases hr : bmReadyOf c s ins j
    · rw [bmEv_notready c s ins j hr] at he; cases he
    · have hv := bmReady_valid c hab s ins j hj hr
      rw [bmEv_ready c hab s ins j hr hv] at he
      cases he
      rw [bmReady_eq] at hr
      simp only [Bool.or_eq_true, Bool.and_eq_true, beq_iff_eq] at hr
      rcases hr with ⟨ha, hg⟩ | ⟨ha, hg⟩
      · left; rw [hg]; exact ⟨ha, hp⟩
      · right; rw [hg]; exact ⟨ha, hp⟩
  · rintro (⟨ha, hp⟩ | ⟨ha, hp⟩)
    · obtain ⟨hlt, _, hch, _⟩ := comb_req c s ins hab ha
      have hr : bmReadyOf c s ins s.grantReq = true := by rw [bmReady_eq]; simp [ha]
      exact ⟨s.grantReq, hlt, _, bmEv_ready c hab s ins _ hr (hch.valid rfl), hp⟩
    · obtain ⟨_, hlt, _, hch, _⟩ := comb_cmd c s ins ha
      have hr : bmReadyOf c s ins s.grantCmd = true := by rw [bmReady_eq]; simp [ha]
      exact ⟨s.grantCmd, hlt, _, bmEv_ready c hab s ins _ hr (hch.valid rfl), hp⟩


theorem rfEv_kind (c : Controller.Cfg) (s : State) (e : Ev) (h : rfEv c s = some e) : e = .prea ∨ e = .ref ∨ e = .zqc := by
  unfold rfEv at h
  repeat' split at h
  all_goals simp_all

/-- facts about the request behind an accepting chooser -/
theorem req_accept_facts (c : Controller.Cfg) (hab : 11 ≤ c.bm.abits) (s : State) (ins : Array BankIn)
    (ha : (combOf c s ins).reqAccept = true) :
    let r := reqJ c s ins s.grantReq
    let k := combOf c s ins
    r.valid = true ∧ k.cReq.cas = r.cas ∧ k.cReq.ras = r.ras ∧ k.cReq.we = r.we ∧ k.cReq.isRead = r.isRead ∧ k.cReq.isWrite = r.isWrite ∧
    ((c.nphases == 1) = false → r.cas = true) ∧ (r.cas = (r.isWrite || r.isRead)) ∧ (r.cas = false → r.ras = true) := by
  obtain ⟨hlt, hact, hch, hmulti, _⟩ := comb_req c s ins hab ha
  have hf := req_facts c.bm s.bms[s.grantReq]! (ins[s.grantReq]!).valid (ins[s.grantReq]!).we (ins[s.grantReq]!).addr (roOf c s).valid hab
  have hv := hch.valid rfl
  have h1 : (reqJ c s ins s.grantReq).cas = true ∧ (reqJ c s ins s.grantReq).ras = false ∨
            (reqJ c s ins s.grantReq).cas = false ∧ (reqJ c s ins s.grantReq).ras = true := hf.1 hv
  have h2 : (reqJ c s ins s.grantReq).cas = true → (reqJ c s ins s.grantReq).isRead = !(reqJ c s ins s.grantReq).isWrite := fun h => (hf.2.1 h).2.1
  have h3 : (reqJ c s ins s.grantReq).cas = false → (reqJ c s ins s.grantReq).isRead = false ∧ (reqJ c s ins s.grantReq).isWrite = false := hf.2.2.1
  refine ⟨hv, by rw [hch.cas]; simp, by rw [hch.ras]; simp, by rw [hch.we]; simp, hch.isRead, hch.isWrite, ?_, ?_, ?_⟩
  · intro hone
    obtain ⟨hr, hw⟩ := hmulti hone
    cases hc : (reqJ c s ins s.grantReq).cas
    · obtain ⟨e1, e2⟩ := h3 hc
      rw [e1] at hr; rw [e2] at hw
      rcases hact with hf' | hf' <;> simp [hf'] at hr hw
    · rfl
  · cases hc : (reqJ c s ins s.grantReq).cas
    · obtain ⟨e1, e2⟩ := h3 hc; simp [e1, e2]
    · have := h2 hc; cases hw : (reqJ c s ins s.grantReq).isWrite <;> simp [this, hw]
  · intro hc; rcases h1 with ⟨e, _⟩ | ⟨_, e⟩
    · rw [hc] at e; cases e
    · exact e

theorem cmd_accept_facts (c : Controller.Cfg) (hab : 11 ≤ c.bm.abits) (s : State) (ins : Array BankIn)
    (ha : (combOf c s ins).cmdAccept = true) :
    let r := reqJ c s ins s.grantCmd
    let k := combOf c s ins
    (c.nphases == 1) = false ∧ r.valid = true ∧ r.cas = false ∧ r.ras = true ∧ k.cCmd.cas = false ∧ k.cCmd.ras = true ∧ k.cCmd.we = r.we := by
  obtain ⟨hone, hlt, hact, hch, hr, hw⟩ := comb_cmd c s ins ha
  have hf := req_facts c.bm s.bms[s.grantCmd]! (ins[s.grantCmd]!).valid (ins[s.grantCmd]!).we (ins[s.grantCmd]!).addr (roOf c s).valid hab
  have hv := hch.valid rfl
  have h1 : (reqJ c s ins s.grantCmd).cas = true ∧ (reqJ c s ins s.grantCmd).ras = false ∨
            (reqJ c s ins s.grantCmd).cas = false ∧ (reqJ c s ins s.grantCmd).ras = true := hf.1 hv
  have h2 : (reqJ c s ins s.grantCmd).cas = true → (reqJ c s ins s.grantCmd).isRead = !(reqJ c s ins s.grantCmd).isWrite := fun h => (hf.2.1 h).2.1
  have hc : (reqJ c s ins s.grantCmd).cas = false := by
    cases hc : (reqJ c s ins s.grantCmd).cas
    · rfl
    · have := h2 hc; rw [hr, hw] at this; cases this
  have hra : (reqJ c s ins s.grantCmd).ras = true := by
    rcases h1 with ⟨e, _⟩ | ⟨_, e⟩
    · rw [hc] at e; cases e
    · exact e
  exact ⟨hone, hv, hc, hra, by rw [hch.cas, hc]; rfl, by rw [hch.ras, hra]; rfl, by rw [hch.we]; simp⟩

theorem cmd_noaccept_one (c : Controller.Cfg) (s : State) (ins : Array BankIn) (hone : (c.nphases == 1) = true) :
    (combOf c s ins).cmdAccept = false := by
  cases h : (combOf c s ins).cmdAccept
  · rfl
  · have := (comb_cmd c s ins h).1; rw [hone] at this; cases this

theorem any_isAct (c : Controller.Cfg) (hab : 11 ≤ c.bm.abits) (s : State) (ins : Array BankIn) :
    (evsOf c s ins).any isAct = actStrobeOf c s ins := by
  rw [Bool.eq_iff_iff, any_evsOf, any_bm c hab]
  have hrf : ¬ ∃ e, rfEv c s = some e ∧ isAct e = true := by
    rintro ⟨e, he, hp⟩
    rcases rfEv_kind c s e he with h | h | h <;> simp [h, isAct] at hp
  simp only [hrf, or_false, actStrobeOf]
  cases hone : (c.nphases == 1)
  · -- several phases
    simp only [Bool.false_eq_true, if_false, Bool.and_eq_true]
    constructor
    · rintro (⟨ha, hp⟩ | ⟨ha, hp⟩)
      · obtain ⟨_, _, _, _, _, _, hm, _, _⟩ := req_accept_facts c hab s ins ha
        have := hm hone
        simp [evOfReq, this] at hp
        split at hp <;> simp [isAct] at hp
      · obtain ⟨_, _, hc, hra, hkc, hkr, hkw⟩ := cmd_accept_facts c hab s ins ha
        refine ⟨ha, ?_⟩
        simp only [evOfReq, hc, Bool.false_eq_true, if_false] at hp
        cases hw : (reqJ c s ins s.grantCmd).we
        · simp [Chosen.activate, hkc, hkr, hkw, hw]
        · simp [hw, isAct] at hp
    · rintro ⟨ha, hp⟩
      right
      obtain ⟨_, _, hc, hra, hkc, hkr, hkw⟩ := cmd_accept_facts c hab s ins ha
      refine ⟨ha, ?_⟩
      simp only [Chosen.activate, hkc, hkr, hkw, Bool.and_eq_true, Bool.not_eq_true'] at hp
      simp [evOfReq, hc, hp.2, isAct]
  · -- a single phase
    simp only [if_true, Bool.and_eq_true, cmd_noaccept_one c s ins hone, Bool.false_eq_true, false_and, or_false]
    constructor
    · rintro ⟨ha, hp⟩
      obtain ⟨_, hkc, hkr, hkw, _, _, _, _, hcr⟩ := req_accept_facts c hab s ins ha
      refine ⟨ha, ?_⟩
      simp only [evOfReq] at hp
      cases hc : (reqJ c s ins s.grantReq).cas
      · cases hw : (reqJ c s ins s.grantReq).we
        · simp [Chosen.activate, hkc, hkr, hkw, hc, hw, hcr hc]
        · simp [hc, hw, isAct] at hp
      · simp only [hc, if_true] at hp
        split at hp <;> simp [isAct] at hp
    · rintro ⟨ha, hp⟩
      obtain ⟨_, hkc, hkr, hkw, _, _, _, _, hcr⟩ := req_accept_facts c hab s ins ha
      refine ⟨ha, ?_⟩
      simp only [Chosen.activate, hkc, hkr, hkw, Bool.and_eq_true, Bool.not_eq_true'] at hp
      simp [evOfReq, hp.1.2, hp.2, isAct]

theorem any_isCas (c : Controller.Cfg) (hab : 11 ≤ c.bm.abits) (s : State) (ins : Array BankIn) :
    (evsOf c s ins).any isCas = casStrobeOf c s ins := by
  rw [Bool.eq_iff_iff, any_evsOf, any_bm c hab]
  have hrf : ¬ ∃ e, rfEv c s = some e ∧ isCas e = true := by
    rintro ⟨e, he, hp⟩
    rcases rfEv_kind c s e he with h | h | h <;> simp [h, isCas] at hp
  simp only [hrf, or_false, casStrobeOf, Bool.and_eq_true]
  constructor
  · rintro (⟨ha, hp⟩ | ⟨ha, hp⟩)
    · obtain ⟨_, _, _, _, hir, hiw, _, hcas, _⟩ := req_accept_facts c hab s ins ha
      refine ⟨ha, ?_⟩
      rw [hir, hiw, ← hcas]
      cases hc : (reqJ c s ins s.grantReq).cas
      · simp only [evOfReq, hc, Bool.false_eq_true, if_false] at hp
        split at hp <;> simp [isCas] at hp
      · rfl
    · obtain ⟨_, _, hc, _⟩ := cmd_accept_facts c hab s ins ha
      simp only [evOfReq, hc, Bool.false_eq_true, if_false] at hp
      split at hp <;> simp [isCas] at hp
  · rintro ⟨ha, hp⟩
    left
    obtain ⟨_, _, _, _, hir, hiw, _, hcas, _⟩ := req_accept_facts c hab s ins ha
    refine ⟨ha, ?_⟩
    rw [hir, hiw, ← hcas] at hp
    simp only [evOfReq, hp, if_true]
    split <;> simp [isCas]

theorem any_isWr (c : Controller.Cfg) (hab : 11 ≤ c.bm.abits) (s : State) (ins : Array BankIn) :
    (evsOf c s ins).any isWr = wrStrobeOf c s ins := by
  rw [Bool.eq_iff_iff, any_evsOf, any_bm c hab]
  have hrf : ¬ ∃ e, rfEv c s = some e ∧ isWr e = true := by
    rintro ⟨e, he, hp⟩
    rcases rfEv_kind c s e he with h | h | h <;> simp [h, isWr] at hp
  simp only [hrf, or_false, wrStrobeOf, Bool.and_eq_true]
  constructor
  · rintro (⟨ha, hp⟩ | ⟨ha, hp⟩)
    · obtain ⟨_, _, _, _, hir, hiw, _, hcas, _⟩ := req_accept_facts c hab s ins ha
      refine ⟨ha, ?_⟩
      rw [hiw]
      simp only [evOfReq] at hp
      cases hc : (reqJ c s ins s.grantReq).cas
      · simp only [hc, Bool.false_eq_true, if_false] at hp
        split at hp <;> simp [isWr] at hp
      · simp only [hc, if_true] at hp
        cases hw : (reqJ c s ins s.grantReq).isWrite
        · simp [hw, isWr] at hp
        · rfl
    · obtain ⟨_, _, hc, _⟩ := cmd_accept_facts c hab s ins ha
      simp only [evOfReq, hc, Bool.false_eq_true, if_false] at hp
      split at hp <;> simp [isWr] at hp
  · rintro ⟨ha, hp⟩
    left
    obtain ⟨_, _, _, _, hir, hiw, _, hcas, _⟩ := req_accept_facts c hab s ins ha
    refine ⟨ha, ?_⟩
    rw [hiw] at hp
    have hc : (reqJ c s ins s.grantReq).cas = true := by rw [hcas, hp]; rfl
    simp [evOfReq, hc, hp, isWr]

/-! ### the multiplexer's gates -/
theorem act_gate (c : Controller.Cfg) (s : State) (ins : Array BankIn) (h : actStrobeOf c s ins = true) :
    s.trrd.ready = true ∧ s.tfaw.ready = true := by
  simp only [actStrobeOf, combOf] at h
  cases hone : (c.nphases == 1) <;> simp [hone] at h <;> grind

theorem cas_gate (c : Controller.Cfg) (s : State) (ins : Array BankIn) (h : (combOf c s ins).reqAccept = true) :
    s.tccd.ready = true := by
  simp only [combOf] at h
  cases hone : (c.nphases == 1) <;> simp [hone] at h <;> grind

/-- multiplexer-level part of the timing invariant -/
structure MInv (c : Controller.Cfg) (s : State) (m : St) : Prop where
  rrd : TxAge c.tRRD s.trrd m.actAny
  ccd : TxAge (some c.tCCD) s.tccd m.cas
  wtr : TxAge (some c.twtr) s.twtr m.wrAny
  faw : match c.tFAW with
        | none => m.win = []
        | some f => C03.TfInv f s.tfaw ∧ m.win = s.tfaw.window
  rdOk : s.fsm = .read → ok m.wrAny c.twtr = true

theorem minv_init (c : Controller.Cfg) : MInv c (init c) (St.init (reqOf c)) := by
  refine ⟨txage_init _, txage_init _, txage_init _, ?_, fun _ => by simp [St.init, ok]⟩
  cases hf : c.tFAW with
  | none => simp [St.init, reqOf, hf]
  | some f =>
    refine ⟨?_, by simp [St.init, reqOf, hf, init, TF.init]⟩
    refine ⟨by simp [init, TF.init, hf], ?_, ?_⟩ <;> simp [init, TF.init, TF.count, hf]

theorem wr_only_in_write (c : Controller.Cfg) (hab : 11 ≤ c.bm.abits) (s : State) (ins : Array BankIn)
    (h : wrStrobeOf c s ins = true) : s.fsm = .write := by
  simp only [wrStrobeOf, Bool.and_eq_true] at h
  obtain ⟨ha, hw⟩ := h
  obtain ⟨_, _, _, _, _, hiw, _, hcas, _⟩ := req_accept_facts c hab s ins ha
  obtain ⟨_, _, _, _, hc⟩ := comb_req c s ins hab ha
  rw [hiw] at hw
  have hcc : (reqJ c s ins s.grantReq).cas = true := by rw [hcas, hw]; rfl
  have := (hc hcc).2
  rw [hw] at this
  simpa using this.symm

theorem advance_actAny (q : Req) (m : St) (evs : List Ev) :
    (advance q m evs).actAny = if evs.any isAct then some 1 else tick m.actAny := rfl
theorem advance_cas (q : Req) (m : St) (evs : List Ev) :
    (advance q m evs).cas = if evs.any isCas then some 1 else tick m.cas := rfl
theorem advance_wrAny (q : Req) (m : St) (evs : List Ev) :
    (advance q m evs).wrAny = if evs.any isWr then some 1 else tick m.wrAny := rfl
theorem advance_win (q : Req) (m : St) (evs : List Ev) :
    (advance q m evs).win = (evs.any isAct :: m.win).take q.tFAW := rfl

theorem minv_step (c : Controller.Cfg) (hab : 11 ≤ c.bm.abits) (s : State) (ins : Array BankIn) (m : St) (h : MInv c s m)
    (hexit : s.fsm = .refresh → (roOf c s).last = true → ok m.wrAny c.twtr = true) :
    MInv c (step c s ins).1 (advance (reqOf c) m (evsOf c s ins)) ∧
    (((advance (reqOf c) m (evsOf c s ins)).win.filter id).length ≤ 4) := by
  obtain ⟨h1, h2, h3, h4, h5⟩ := h
  have hwin : (match c.tFAW with
      | none => (advance (reqOf c) m (evsOf c s ins)).win = []
      | some f => C03.TfInv f (step c s ins).1.tfaw ∧ (advance (reqOf c) m (evsOf c s ins)).win = (step c s ins).1.tfaw.window) := by
    rw [advance_win, any_isAct c hab, step_tfaw]
    cases hf : c.tFAW with
    | none => simp [reqOf, hf]
    | some f =>
      simp only [hf] at h4 ⊢
      refine ⟨C03.tf_step f s.tfaw _ (fun hv => (act_gate c s ins hv).2) h4.1, ?_⟩
      simp [TF.step, reqOf, hf, h4.2]
  refine ⟨⟨?_, ?_, ?_, hwin, ?_⟩, ?_⟩
  · rw [step_trrd, advance_actAny, any_isAct c hab]; exact txage_step _ _ _ _ h1
  · rw [step_tccd, advance_cas, any_isCas c hab]; exact txage_step _ _ _ _ h2
  · rw [step_twtr, advance_wrAny, any_isWr c hab]; exact txage_step _ _ _ _ h3
  · rw [step_fsm, advance_wrAny, any_isWr c hab]
    intro hn
    have hnw : wrStrobeOf c s ins = false ∨ s.fsm = .write := by
      cases hw : wrStrobeOf c s ins
      · exact Or.inl rfl
      · exact Or.inr (wr_only_in_write c hab s ins hw)
    unfold fsmNext at hn
    cases hfs : s.fsm with
    | read =>
      rcases hnw with hw | hw
      · rw [hw]; exact ok_tick _ _ (h5 hfs)
      · rw [hfs] at hw; cases hw
    | write =>
      simp only [hfs] at hn
      repeat' split at hn
      all_goals cases hn
    | refresh =>
      simp only [hfs] at hn
      split at hn
      · next hl =>
        rcases hnw with hw | hw
        · rw [hw]; exact ok_tick _ _ (hexit hfs hl)
        · rw [hfs] at hw; cases hw
      · cases hn
    | wtr =>
      simp only [hfs] at hn
      split at hn
      · next hr =>
        rcases hnw with hw | hw
        · rw [hw]; exact ok_tick _ _ (txage_ready _ _ _ h3 hr)
        · rw [hfs] at hw; cases hw
      · cases hn
    | rtw k =>
      simp only [hfs] at hn
      split at hn <;> cases hn
  · cases hf : c.tFAW with
    | none => simp only [hf] at hwin; rw [hwin]; simp
    | some f =>
      simp only [hf] at hwin
      rw [hwin.2]; exact hwin.1.2.1

/-! ### per-bank view of the monitor's ages -/
def agesOf (m : St) (j : Nat) : BAges := ⟨m.act j, m.pre j, m.wr j, m.apRd j, m.apWr j, m.apPend j⟩

theorem bmEv_bank (c : Controller.Cfg) (s : State) (ins : Array BankIn) (j : Nat) (e : Ev) (h : bmEv c s ins j = some e) :
    e = .act j ∨ e = .pre j ∨ (∃ ap, e = .rd j ap) ∨ (∃ ap, e = .wr j ap) := by
  unfold bmEv at h
  split at h
  · cases h
  · cases h; exact Or.inl rfl
  · cases h; exact Or.inr (Or.inl rfl)
  · cases h
    split
    · exact Or.inr (Or.inr (Or.inr ⟨_, rfl⟩))
    · exact Or.inr (Or.inr (Or.inl ⟨_, rfl⟩))

/-- a predicate that only holds for events of bank `j` (or refresher events) is decided by bank machine `j` and the refresher -/
theorem any_bank (c : Controller.Cfg) (s : State) (ins : Array BankIn) (j : Nat) (hj : j < c.nbm) (p : Ev → Bool)
    (hp : ∀ j', j' ≠ j → ∀ ap, p (.act j') = false ∧ p (.pre j') = false ∧ p (.rd j' ap) = false ∧ p (.wr j' ap) = false) :
    (evsOf c s ins).any p = ((bmEv c s ins j).any p || (rfEv c s).any p) := by
  rw [Bool.eq_iff_iff, any_evsOf]
  simp only [Bool.or_eq_true, Option.any_eq_true]
  constructor
  · rintro (⟨j', hj', e, he, hpe⟩ | ⟨e, he, hpe⟩)
    · by_cases hjj : j' = j
      · subst hjj; exact Or.inl ⟨e, he, hpe⟩
      · exfalso
        rcases bmEv_bank c s ins j' e he with h | h | ⟨ap, h⟩ | ⟨ap, h⟩ <;> subst h
        · rw [(hp j' hjj true).1] at hpe; cases hpe
        · rw [(hp j' hjj true).2.1] at hpe; cases hpe
        · rw [(hp j' hjj ap).2.2.1] at hpe; cases hpe
        · rw [(hp j' hjj ap).2.2.2] at hpe; cases hpe
    · exact Or.inr ⟨e, he, hpe⟩
  · rintro (⟨e, he, hpe⟩ | ⟨e, he, hpe⟩)
    · exact Or.inl ⟨j, hj, e, he, hpe⟩
    · exact Or.inr ⟨e, he, hpe⟩

theorem rfEv_prea (c : Controller.Cfg) (s : State) : rfEv c s = some .prea ↔ preaOf c s = true := by
  simp only [rfEv, preaOf, RefresherInv.preaAcc, roOf, Bool.and_eq_true, Bool.not_eq_true', beq_iff_eq]
  constructor
  · intro h
    split at h
    · next hacc =>
      split at h
      · next h1 => exact ⟨⟨⟨hacc, h1.1.1⟩, h1.1.2⟩, h1.2⟩
      · split at h
        · cases h
        · split at h <;> cases h
    · cases h
  · rintro ⟨⟨⟨⟨hv, hf⟩, hr⟩, hw⟩, hc⟩
    simp [hv, hf, hr, hw, hc]

theorem cas_isWrite (c : Controller.Cfg) (s : State) (ins : Array BankIn) (j : Nat) (ap : Bool)
    (h : cmdOfBm c s ins j = .cas ap) : (reqJ c s ins j).isWrite = (s.bms[j]!).buf.we := by
  rw [cmdOfBm_eq] at h
  split at h
  · simp only [classify] at h
    split at h
    · split at h
      · next hc =>
        simp only [reqJ, BankMachine.req, BankMachine.step] at hc ⊢
        simp at hc ⊢
        simp [hc]
      · split at h <;> (try split at h) <;> cases h
    · cases h
  · cases h

theorem rf_any_bank (c : Controller.Cfg) (s : State) (p : Ev → Bool) (h1 : p .ref = false) (h2 : p .zqc = false) :
    (rfEv c s).any p = (preaOf c s && p .prea) := by
  cases hr : rfEv c s with
  | none =>
    have : preaOf c s = false := by
      cases hp : preaOf c s
      · rfl
      · have := (rfEv_prea c s).mpr hp; rw [hr] at this; cases this
    simp [this]
  | some e =>
    rcases rfEv_kind c s e hr with h | h | h <;> subst h
    · have := (rfEv_prea c s).mp hr; simp [this]
    · have : preaOf c s = false := by
        cases hp : preaOf c s
        · rfl
        · have := (rfEv_prea c s).mpr hp; rw [hr] at this; cases this
      simp [this, h1]
    · have : preaOf c s = false := by
        cases hp : preaOf c s
        · rfl
        · have := (rfEv_prea c s).mpr hp; rw [hr] at this; cases this
      simp [this, h2]

theorem adv_bank (c : Controller.Cfg) (s : State) (ins : Array BankIn) (m : St) (q : Req) (j : Nat) (hj : j < c.nbm) :
    agesOf (advance q m (evsOf c s ins)) j =
      bAdvance (agesOf m j) (cmdOfBm c s ins j) (s.bms[j]!).buf.we (preaOf c s) := by
  have hb : ∀ (p : Ev → Bool), (∀ j', j' ≠ j → ∀ ap, p (.act j') = false ∧ p (.pre j') = false ∧ p (.rd j' ap) = false ∧ p (.wr j' ap) = false) →
      p .ref = false → p .zqc = false →
      (evsOf c s ins).any p = ((bmEv c s ins j).any p || (preaOf c s && p .prea)) := by
    intro p hp h1 h2
    rw [any_bank c s ins j hj p hp, rf_any_bank c s p h1 h2]
  have e_act := hb (· == .act j) (by intro j' hne ap; simp [hne]) (by simp) (by simp)
  have e_pre := hb (fun e => e == .pre j || e == .prea) (by intro j' hne ap; simp [hne]) (by simp) (by simp)
  have e_wr := hb (fun e => e == .wr j true || e == .wr j false) (by intro j' hne ap; simp [hne]) (by simp) (by simp)
  have e_rdt := hb (· == .rd j true) (by intro j' hne ap; simp [hne]) (by simp) (by simp)
  have e_wrt := hb (· == .wr j true) (by intro j' hne ap; simp [hne]) (by simp) (by simp)
  have e_ap := hb (fun e => e == .rd j true || e == .wr j true) (by intro j' hne ap; simp [hne]) (by simp) (by simp)
  simp only [agesOf, advance, e_act, e_pre, e_wr, e_rdt, e_wrt, e_ap]
  cases hc : cmdOfBm c s ins j with
  | nop => simp [bmEv, hc, bAdvance]
  | act r => simp [bmEv, hc, bAdvance]
  | pre => simp [bmEv, hc, bAdvance]
  | cas ap =>
    have hw := cas_isWrite c s ins j ap hc
    cases hbw : (s.bms[j]!).buf.we <;> cases ap <;> simp [bmEv, hc, bAdvance, hw, hbw]


/-! ### the composed timing invariant -/
structure TInv (c : Controller.Cfg) (s : State) (g : Ghost) (m : St) : Prop where
  mux : MInv c s m
  bm : ∀ j, j < c.nbm → BInv c.bm s.bms[j]! (agesOf m j)
  rt : RfTiming.RTInv c.rf s.rf m.prea m.ref m.zq
  preEq : g.pd = true → ∀ j, j < c.nbm → m.pre j = m.prea
  wrOld : g.pd = true → ∀ t, ok m.prea t = true → ok m.wrAny t = true
  wrZq : s.rf.fsm = .doZqcs → ok m.wrAny (c.rf.tRP + c.rf.tRFC) = true
  gnt : s.fsm = .refresh → ∀ j, j < c.nbm → ok (m.act j) (c.bm.tRAS.getD 0) = true ∧ ok (m.wr j) c.bm.twtp = true

/-- configuration conditions of the timing theorem, on top of `WF2` -/
structure WF3 (c : Controller.Cfg) : Prop where
  wf2 : WF2 c
  rp : c.rf.tRP = c.bm.tRP                       -- one tRP for bank machines and refresher (both are settings.timing.tRP)
  wtr : c.twtr ≤ c.rf.tRP + c.rf.tRFC            -- a refresh lasts at least as long as the write-to-read turn-around
  rpPos : 1 ≤ c.bm.tRP

theorem rfEv_eq (c : Controller.Cfg) (s : State) : rfEv c s = RfTiming.evR c.rf s.rf (s.fsm == .refresh) := rfl

theorem adv_prea (c : Controller.Cfg) (s : State) (ins : Array BankIn) (m : St) (q : Req) :
    (advance q m (evsOf c s ins)).prea = RfTiming.upd m.prea (rfEv c s == some .prea) ∧
    (advance q m (evsOf c s ins)).ref = RfTiming.upd m.ref (rfEv c s == some .ref) ∧
    (advance q m (evsOf c s ins)).zq = RfTiming.upd m.zq (rfEv c s == some .zqc) := by
  have key : ∀ (e0 : Ev), (e0 = .prea ∨ e0 = .ref ∨ e0 = .zqc) → (evsOf c s ins).any (· == e0) = (rfEv c s == some e0) := by
    intro e0 he0
    rw [Bool.eq_iff_iff, any_evsOf]
    constructor
    · rintro (⟨j, hj, e, he, hp⟩ | ⟨e, he, hp⟩)
      · have hee : e = e0 := by simpa using hp
        subst hee
        rcases bmEv_bank c s ins j e he with h | h | ⟨ap, h⟩ | ⟨ap, h⟩ <;> rcases he0 with h0 | h0 | h0 <;> rw [h] at h0 <;> cases h0
      · have hee : e = e0 := by simpa using hp
        subst hee; simp [he]
    · intro h
      right
      have : rfEv c s = some e0 := by simpa using h
      exact ⟨e0, this, by simp⟩
  refine ⟨?_, ?_, ?_⟩
  · show (if (evsOf c s ins).any (· == .prea) then some 1 else tick m.prea) = _
    rw [key .prea (Or.inl rfl)]; rfl
  · show (if (evsOf c s ins).any (· == .ref) then some 1 else tick m.ref) = _
    rw [key .ref (Or.inr (Or.inl rfl))]; rfl
  · show (if (evsOf c s ins).any (· == .zqc) then some 1 else tick m.zq) = _
    rw [key .zqc (Or.inr (Or.inr rfl))]; rfl

/-- facts about the end of a refresh episode: when the refresher withdraws `valid` while executing, the precharge-all of
this episode is at least tRP + min(tRFC, tZQCS) old, and so is the last write -/
theorem episode_end (c : Controller.Cfg) (hwf : WF3 c) (s : State) (g : Ghost) (m : St) (hc : CInv c s g) (ht : TInv c s g m)
    (hin : RefresherInv.inRef s.rf.fsm = true) (hv : (roOf c s).valid = false) :
    g.pd = true ∧ ok m.prea c.bm.tRP = true ∧ ok m.wrAny c.twtr = true := by
  have hpd := novalid_pd c.rf s.rf g.pd hc.rf hin hv
  have hrp := hwf.rp
  have hw := hwf.wtr
  cases hfs : s.rf.fsm <;> simp [RefresherInv.inRef, hfs] at hin
  · -- doRefresh: seqDone
    have hsd : s.rf.exDone = true := by
      simp only [roOf, Refresher.out, hfs, Refresher.seqDone] at hv
      cases hx : s.rf.exDone
      · simp [hx] at hv
      · rfl
    have h4 := ht.rt.r4 hfs hsd
    refine ⟨hpd, ok_mono _ _ _ h4 (by omega), ok_mono _ _ _ (ht.wrOld hpd _ h4) hw⟩
  · -- doZqcs: zqDone
    have hzd : s.rf.zqDone = true := by
      simp only [roOf, Refresher.out, hfs] at hv
      cases hx : s.rf.zqDone
      · simp [hx] at hv
      · rfl
    have h4 := ht.rt.z4 hfs hzd
    refine ⟨hpd, ok_mono _ _ _ h4 (by omega), ok_mono _ _ _ (ht.wrZq hfs) hw⟩

theorem bm_inactive_nop (c : Controller.Cfg) (s : State) (ins : Array BankIn) (j : Nat)
    (h : s.fsm ≠ .read ∧ s.fsm ≠ .write) : cmdOfBm c s ins j = .nop := by
  rw [cmdOfBm_eq, bmReady_inactive c s ins j h]; rfl

theorem gnt_indep (c : BankMachine.Cfg) (sj : BankMachine.State) (i : BankMachine.In) :
    (BankMachine.step c sj i).2.refreshGnt = (BankMachine.req c sj i.valid i.we i.addr i.refresh).refreshGnt := by
  simp [BankMachine.step, BankMachine.req]

/-- hypotheses of `binv_step` for bank machine `j`, from the controller invariants -/
theorem bm_hyps (c : Controller.Cfg) (hwf : WF3 c) (s : State) (g : Ghost) (ins : Array BankIn) (m : St) (hc : CInv c s g)
    (ht : TInv c s g m) (j : Nat) (hj : j < c.nbm) :
    (preaOf c s = true → (s.bms[j]!).fsm = .refresh ∧ (bmIn c s ins j).refresh = true) ∧
    ((s.bms[j]!).fsm = .refresh → (bmIn c s ins j).refresh = false → ok (agesOf m j).pre c.bm.tRP = true) := by
  constructor
  · intro hp
    simp only [preaOf, RefresherInv.preaAcc, Bool.and_eq_true, beq_iff_eq] at hp
    exact ⟨hc.muxRef hp.1.1.1.2 j hj, hp.1.1.1.1⟩
  · intro hf hr
    have hv : (roOf c s).valid = false := hr
    have hni : s.rf.fsm ≠ .idle := fun hidle => (hc.idle hidle).2 j hj hf
    have hnw : s.rf.fsm ≠ .waitBm := fun hw => by have := (out_waitBm c.rf s.rf hw).1; unfold roOf at hv; rw [hv] at this; cases this
    have hin : RefresherInv.inRef s.rf.fsm = true := by
      cases hfs : s.rf.fsm <;> simp_all [RefresherInv.inRef]
    obtain ⟨hpd, hpre, _⟩ := episode_end c hwf s g m hc ht hin hv
    show ok (m.pre j) c.bm.tRP = true
    rw [ht.preEq hpd j hj]; exact hpre

theorem active_of_cmd (c : Controller.Cfg) (s : State) (ins : Array BankIn) (j : Nat) (h : cmdOfBm c s ins j ≠ .nop) :
    s.fsm = .read ∨ s.fsm = .write := by
  refine Decidable.byContradiction fun hn => ?_
  have : s.fsm ≠ .read ∧ s.fsm ≠ .write := by
    constructor <;> (intro e; exact hn (by simp [e]))
  exact h (bm_inactive_nop c s ins j this)

theorem all_allowed (c : Controller.Cfg) (hwf : WF3 c) (s : State) (g : Ghost) (ins : Array BankIn) (m : St)
    (hc : CInv c s g) (ht : TInv c s g m) :
    (evsOf c s ins).all (allowed (reqOf c) m) = true := by
  have hab := hwf.wf2.abits
  rw [List.all_eq_true]
  intro e he
  rcases (mem_evsOf c s ins e).mp he with ⟨j, hj, hev⟩ | hev
  · -- an event of bank machine j
    obtain ⟨hp1, hp2⟩ := bm_hyps c hwf s g ins m hc ht j hj
    have hb := (BmTiming.binv_step c.bm hwf.rpPos s.bms[j]! (bmIn c s ins j) (agesOf m j) (preaOf c s) (ht.bm j hj) hp1 hp2).1
    have hcmd : BmTiming.cmdOfStep c.bm s.bms[j]! (bmIn c s ins j) = cmdOfBm c s ins j := rfl
    rw [hcmd] at hb
    have hact : s.fsm = .read ∨ s.fsm = .write := by
      apply active_of_cmd c s ins j
      intro hn; simp [bmEv, hn] at hev
    have hnin : RefresherInv.inRef s.rf.fsm ≠ true := fun hi => by
      have := hc.inRef hi; rcases hact with e | e <;> rw [e] at this <;> cases this
    have href : ok m.ref c.rf.tRFC = true := ht.rt.r2 (fun ⟨e, _⟩ => hnin (by simp [RefresherInv.inRef, e]))
    have hzq : ok m.zq (c.rf.tZQCS.getD 0) = true := ht.rt.z2 (fun ⟨e, _⟩ => hnin (by simp [RefresherInv.inRef, e]))
    have hany : ∀ p : Ev → Bool, p e = true → (evsOf c s ins).any p = true := fun p hp => List.any_eq_true.mpr ⟨e, he, hp⟩
    simp only [bmEv] at hev
    cases hcm : cmdOfBm c s ins j with
    | nop => simp [hcm] at hev
    | act r =>
      simp only [hcm, Option.some.injEq] at hev; subst hev
      have hst : actStrobeOf c s ins = true := by rw [← any_isAct c hab]; exact hany isAct rfl
      have hrrd := txage_ready _ _ _ ht.mux.rrd (act_gate c s ins hst).1
      simp only [hcm, bAllowed, Bool.and_eq_true, Bool.or_eq_true, Bool.not_eq_true'] at hb
      simp only [allowed, reqOf, Bool.and_eq_true, Bool.or_eq_true, Bool.not_eq_true']
      exact ⟨⟨⟨⟨⟨hb.1.1, hb.1.2⟩, hrrd⟩, href⟩, hzq⟩, hb.2⟩
    | pre =>
      simp only [hcm, Option.some.injEq] at hev; subst hev
      simpa [hcm, bAllowed, allowed, reqOf, agesOf] using hb
    | cas ap =>
      simp only [hcm, Option.some.injEq] at hev
      have hst : casStrobeOf c s ins = true := by
        rw [← any_isCas c hab]; apply hany isCas; rw [← hev]; split <;> rfl
      have hra : (combOf c s ins).reqAccept = true := by
        simp only [casStrobeOf, Bool.and_eq_true] at hst; exact hst.1
      have hccd : ok m.cas c.tCCD = true := by simpa using txage_ready _ _ _ ht.mux.ccd (cas_gate c s ins hra)
      have hrcd : ok (m.act j) c.bm.tRCD = true := by simpa [hcm, bAllowed, agesOf] using hb
      cases hw : (reqJ c s ins j).isWrite
      · -- read: only in the READ state
        rw [hw] at hev; simp only [Bool.false_eq_true, if_false] at hev; subst hev
        -- the accepted CAS is this bank machine's: it is the one granted by the request chooser
        have hgj : s.grantReq = j := by
          have hbr : bmReadyOf c s ins j = true := by
            cases hbr : bmReadyOf c s ins j
            · rw [cmdOfBm_eq, hbr] at hcm; cases hcm
            · rfl
          rw [bmReady_eq] at hbr
          simp only [Bool.or_eq_true, Bool.and_eq_true, beq_iff_eq] at hbr
          rcases hbr with ⟨_, e⟩ | ⟨hca, e⟩
          · exact e
          · exfalso
            obtain ⟨_, _, hcf, _⟩ := cmd_accept_facts c hab s ins hca
            rw [e] at hcf
            have hbr2 : bmReadyOf c s ins j = true := by rw [bmReady_eq]; simp [hca, e]
            have hv := bmReady_valid c hab s ins j hj hbr2
            rw [cmdOfBm_eq, hbr2] at hcm
            simp [classify, hv, hcf] at hcm
            split at hcm <;> (try split at hcm) <;> cases hcm
        have hrd : s.fsm = .read := by
          obtain ⟨_, hact2, _, _, hcasf⟩ := comb_req c s ins hab hra
          have hcj : (reqJ c s ins j).cas = true := by
            have hbr2 : bmReadyOf c s ins j = true := by
              cases hbr : bmReadyOf c s ins j
              · rw [cmdOfBm_eq, hbr] at hcm; cases hcm
              · rfl
            have hv := bmReady_valid c hab s ins j hj hbr2
            rw [cmdOfBm_eq, hbr2] at hcm
            simp only [if_true, classify, hv] at hcm
            cases hcc : (reqJ c s ins j).cas
            · rw [hcc] at hcm; simp at hcm; split at hcm <;> (try split at hcm) <;> cases hcm
            · rfl
          rw [hgj] at hcasf
          have := (hcasf hcj).2
          rw [hw] at this
          rcases hact2 with e | e
          · exact e
          · rw [e] at this; simp at this
        have hwtr := ht.mux.rdOk hrd
        simp [allowed, reqOf, hrcd, hccd, hwtr]
      · rw [hw] at hev; simp only [if_true] at hev; subst hev
        simp [allowed, reqOf, hrcd, hccd]
  · -- the refresher's event
    have hacc : (roOf c s).valid = true ∧ s.fsm = .refresh := by
      simp only [rfEv] at hev
      split at hev
      · next h => simpa using h
      · cases hev
    rcases rfEv_kind c s e hev with h | h | h <;> subst h
    · simp only [allowed, reqOf, List.all_eq_true, List.mem_range, Bool.and_eq_true]
      intro b hb
      exact ht.gnt hacc.2 b hb
    · have := (RfTiming.rtinv_step c.rf hwf.wf2.base.rf s.rf g.pd (s.fsm == .refresh) m.prea m.ref m.zq hc.rf ht.rt
        (fun hi => by simp [hc.inRef hi])).1 (Or.inl (by rw [← rfEv_eq]; exact hev))
      simp [allowed, reqOf, this.1, this.2.1, this.2.2, ← hwf.rp]
    · have := (RfTiming.rtinv_step c.rf hwf.wf2.base.rf s.rf g.pd (s.fsm == .refresh) m.prea m.ref m.zq hc.rf ht.rt
        (fun hi => by simp [hc.inRef hi])).1 (Or.inr (by rw [← rfEv_eq]; exact hev))
      simp [allowed, reqOf, this.1, this.2.1, this.2.2, ← hwf.rp]

/-! ### the commands of one cycle do not conflict with each other -/
theorem exclusive_iff (q : Req) (l : List Ev) : exclusive q l = true ↔ l.Pairwise (fun a b => conflict q a b = false) := by
  induction l with
  | nil => simp [exclusive]
  | cons e rest ih =>
    simp only [exclusive, Bool.and_eq_true, List.all_eq_true, Bool.not_eq_true', List.pairwise_cons, ih]

/-- where an event of bank machine `j` comes from: the chooser that granted `j` accepted -/
theorem bmEv_src (c : Controller.Cfg) (hab : 11 ≤ c.bm.abits) (s : State) (ins : Array BankIn) (j : Nat) (hj : j < c.nbm) (e : Ev)
    (he : bmEv c s ins j = some e) :
    ((combOf c s ins).reqAccept = true ∧ s.grantReq = j ∧ e = evOfReq (reqJ c s ins j) j (apOf c s ins j)) ∨
    ((combOf c s ins).cmdAccept = true ∧ s.grantCmd = j ∧ e = evOfReq (reqJ c s ins j) j (apOf c s ins j)) := by
  cases hr : bmReadyOf c s ins j
  · rw [bmEv_notready c s ins j hr] at he; cases he
  · have hv := bmReady_valid c hab s ins j hj hr
    rw [bmEv_ready c hab s ins j hr hv] at he
    cases he
    rw [bmReady_eq] at hr
    simp only [Bool.or_eq_true, Bool.and_eq_true, beq_iff_eq] at hr
    rcases hr with ⟨ha, hg⟩ | ⟨ha, hg⟩
    · exact Or.inl ⟨ha, hg, rfl⟩
    · exact Or.inr ⟨ha, hg, rfl⟩

theorem bm_pair_noconflict (c : Controller.Cfg) (hab : 11 ≤ c.bm.abits) (s : State) (ins : Array BankIn) (i j : Nat)
    (hi : i < c.nbm) (hj : j < c.nbm) (hij : i ≠ j) (a b : Ev) (ha : bmEv c s ins i = some a) (hb : bmEv c s ins j = some b) :
    conflict (reqOf c) a b = false := by
  have hne : (i == j) = false := by simpa using hij
  have hne' : (j == i) = false := by simpa using (Ne.symm hij)
  rcases bmEv_src c hab s ins i hi a ha with ⟨hai, hgi, rfl⟩ | ⟨hai, hgi, rfl⟩ <;>
    rcases bmEv_src c hab s ins j hj b hb with ⟨haj, hgj, rfl⟩ | ⟨haj, hgj, rfl⟩
  · exact absurd (hgi.symm.trans hgj) hij
  · -- i: column command of the request chooser, j: row command of the command chooser
    obtain ⟨hmulti, _, hcas, hras, _⟩ := cmd_accept_facts c hab s ins haj
    have hr := req_accept_facts c hab s ins hai
    rw [hgj] at hcas hras; rw [hgi] at hr
    have hci : (reqJ c s ins i).cas = true := hr.2.2.2.2.2.2.1 hmulti
    simp only [evOfReq, hci, hcas, if_true]
    cases (reqJ c s ins i).isWrite <;> cases (reqJ c s ins j).we <;> simp [conflict, conflict1, hne, hne']
  · obtain ⟨hmulti, _, hcas, hras, _⟩ := cmd_accept_facts c hab s ins hai
    have hr := req_accept_facts c hab s ins haj
    rw [hgi] at hcas hras; rw [hgj] at hr
    have hcj : (reqJ c s ins j).cas = true := hr.2.2.2.2.2.2.1 hmulti
    simp only [evOfReq, hcj, hcas, if_true]
    cases (reqJ c s ins j).isWrite <;> cases (reqJ c s ins i).we <;> simp [conflict, conflict1, hne, hne']
  · exact absurd (hgi.symm.trans hgj) hij

theorem evs_exclusive (c : Controller.Cfg) (hab : 11 ≤ c.bm.abits) (s : State) (ins : Array BankIn) :
    exclusive (reqOf c) (evsOf c s ins) = true := by
  rw [exclusive_iff, evsOf, List.pairwise_append]
  refine ⟨?_, ?_, ?_⟩
  · rw [List.pairwise_filterMap]
    refine List.Pairwise.imp_of_mem ?_ (List.pairwise_lt_range (n := c.nbm))
    intro i j hi hj hlt a ha b hb
    exact bm_pair_noconflict c hab s ins i j (List.mem_range.mp hi) (List.mem_range.mp hj) (Nat.ne_of_lt hlt) a b ha hb
  · cases rfEv c s <;> simp
  · intro a ha b hb
    obtain ⟨j, hj, haj⟩ := List.mem_filterMap.mp ha
    have hrf : rfEv c s = some b := by simpa using hb
    have hfsm : s.fsm = .refresh := by
      simp only [rfEv] at hrf
      split at hrf
      · rename_i h; simp only [Bool.and_eq_true, beq_iff_eq] at h; exact h.2
      · cases hrf
    have := bm_inactive_nop c s ins j (by rw [hfsm]; exact ⟨by decide, by decide⟩)
    simp [bmEv, this] at haj

theorem wr_nostrobe (c : Controller.Cfg) (hab : 11 ≤ c.bm.abits) (s : State) (ins : Array BankIn) (h : s.fsm ≠ .write) :
    wrStrobeOf c s ins = false := by
  cases hw : wrStrobeOf c s ins
  · rfl
  · exact absurd (wr_only_in_write c hab s ins hw) h

theorem tinv_step (c : Controller.Cfg) (hwf : WF3 c) (s : State) (g : Ghost) (ins : Array BankIn) (m : St)
    (hc : CInv c s g) (hc' : CInv c (step c s ins).1 (gNext c s g ins)) (ht : TInv c s g m) :
    TInv c (step c s ins).1 (gNext c s g ins) (advance (reqOf c) m (evsOf c s ins)) ∧
    (((advance (reqOf c) m (evsOf c s ins)).win.filter id).length ≤ 4) := by
  have hab := hwf.wf2.abits
  have hexit : s.fsm = .refresh → (roOf c s).last = true → ok m.wrAny c.twtr = true := by
    intro _ hl
    obtain ⟨hv, hin⟩ := (out_last_valid c.rf s.rf).1 hl
    exact (episode_end c hwf s g m hc ht hin hv).2.2
  obtain ⟨hmux, hwin⟩ := minv_step c hab s ins m ht.mux hexit
  obtain ⟨hp, hr, hz⟩ := adv_prea c s ins m (reqOf c)
  have hrt := (RfTiming.rtinv_step c.rf hwf.wf2.base.rf s.rf g.pd (s.fsm == .refresh) m.prea m.ref m.zq hc.rf ht.rt
        (fun hi => by simp [hc.inRef hi])).2
  have hbmstep : ∀ j, j < c.nbm →
      BInv c.bm (step c s ins).1.bms[j]! (agesOf (advance (reqOf c) m (evsOf c s ins)) j) ∧
      ((BankMachine.step c.bm s.bms[j]! (bmIn c s ins j)).2.refreshGnt = true →
        ok (m.act j) (c.bm.tRAS.getD 0) = true ∧ ok (m.wr j) c.bm.twtp = true) := by
    intro j hj
    obtain ⟨hp1, hp2⟩ := bm_hyps c hwf s g ins m hc ht j hj
    obtain ⟨_, h2, h3⟩ := BmTiming.binv_step c.bm hwf.rpPos s.bms[j]! (bmIn c s ins j) (agesOf m j) (preaOf c s) (ht.bm j hj) hp1 hp2
    rw [step_bms c s ins j hj, adv_bank c s ins m (reqOf c) j hj]
    exact ⟨h2, h3⟩
  refine ⟨⟨hmux, fun j hj => (hbmstep j hj).1, ?_, ?_, ?_, ?_, ?_⟩, hwin⟩
  · rw [step_rf, hp, hr, hz, rfEv_eq]; exact hrt
  all_goals
    have hrf := rf_next_facts c.rf s.rf (s.fsm == .refresh)
    have hpo : (rfEv c s == some .prea) = preaOf c s := by
      rw [Bool.eq_iff_iff]; simp only [beq_iff_eq]; exact rfEv_prea c s
    have hpdf : (gNext c s g ins).pd = true → s.fsm = .refresh ∧ (g.pd = true ∨ preaOf c s = true) := by
      intro hpd
      simp only [gNext, RefresherInv.pd', Bool.and_eq_true, Bool.or_eq_true] at hpd
      obtain ⟨_, _, hcase⟩ := hrf.2 hpd.1
      refine ⟨?_, hpd.2⟩
      rcases hcase with ⟨_, hr⟩ | hr
      · simpa using hr
      · exact hc.inRef hr
    have hnop : ∀ j, j < c.nbm → (s.bms[j]!).fsm = .refresh → cmdOfBm c s ins j = .nop := by
      intro j hj hf
      rw [cmdOfBm_eq]
      have : (reqJ c s ins j).valid = false := by
        simp only [reqJ, BankMachine.req, BankMachine.step, hf]; simp
      simp [classify, this]
    have hage : ∀ j, j < c.nbm → (s.bms[j]!).fsm = .refresh →
        (advance (reqOf c) m (evsOf c s ins)).act j = tick (m.act j) ∧ (advance (reqOf c) m (evsOf c s ins)).wr j = tick (m.wr j) ∧
        (advance (reqOf c) m (evsOf c s ins)).pre j = (if preaOf c s then some 1 else tick (m.pre j)) := by
      intro j hj hf
      have := adv_bank c s ins m (reqOf c) j hj
      rw [hnop j hj hf] at this
      simp only [agesOf, bAdvance, BAges.mk.injEq] at this
      exact ⟨this.1, this.2.2.1, this.2.1⟩
  · -- preEq'
    intro hpd j hj
    obtain ⟨hfr, hor⟩ := hpdf hpd
    rw [(hage j hj (hc.muxRef hfr j hj)).2.2, hp, hpo]
    cases hpa : preaOf c s
    · rcases hor with h | h
      · simp [RfTiming.upd, ht.preEq h j hj]
      · rw [hpa] at h; cases h
    · simp [RfTiming.upd]
  · -- wrOld'
    intro hpd t hok
    obtain ⟨hfr, hor⟩ := hpdf hpd
    rw [advance_wrAny, any_isWr c hab, wr_nostrobe c hab s ins (by rw [hfr]; simp)]
    rw [hp, hpo] at hok
    simp only [Bool.false_eq_true, if_false]
    cases hpa : preaOf c s
    · have hpdg : g.pd = true := by rcases hor with h | h; exact h; rw [hpa] at h; cases h
      simp only [RfTiming.upd, hpa, Bool.false_eq_true, if_false] at hok
      cases hm : m.prea with
      | none =>
        exact ok_tick _ _ (ht.wrOld hpdg t (by rw [hm]; rfl))
      | some x =>
        rw [hm] at hok
        simp at hok
        by_cases ht0 : t = 0
        · subst ht0; cases m.wrAny <;> simp
        · have h1 : ok m.prea (t - 1) = true := by rw [hm]; simp; omega
          have h2 := ht.wrOld hpdg _ h1
          have h3 := BmTiming.ok_tick_succ _ _ h2
          have : t - 1 + 1 = t := by omega
          rwa [this] at h3
    · simp only [RfTiming.upd, hpa, if_true] at hok
      simp at hok
      cases hw : m.wrAny <;> simp; omega
  · -- wrZq'
    rw [step_rf, RefresherInv.step_fsm]
    intro hz'
    have hcase : (s.rf.fsm = .doRefresh ∧ Refresher.seqDone s.rf = true) ∨ s.rf.fsm = .doZqcs := by
      unfold RefresherInv.fsmNext at hz'
      cases hfs : s.rf.fsm <;> simp only [hfs] at hz'
      · split at hz' <;> cases hz'
      · split at hz' <;> cases hz'
      · split at hz'
        · next hsd => exact Or.inl ⟨rfl, hsd⟩
        · cases hz'
      · exact Or.inr rfl
    have hin : RefresherInv.inRef s.rf.fsm = true := by rcases hcase with ⟨e, _⟩ | e <;> simp [RefresherInv.inRef, e]
    have hfr := hc.inRef hin
    rw [advance_wrAny, any_isWr c hab, wr_nostrobe c hab s ins (by rw [hfr]; simp)]
    simp only [Bool.false_eq_true, if_false]
    apply ok_tick
    rcases hcase with ⟨e, hsd⟩ | e
    · simp only [Refresher.seqDone, Bool.and_eq_true, beq_iff_eq] at hsd
      have h4 := ht.rt.r4 e hsd.1
      have hpdg : g.pd = true := by
        have hfI := hc.rf.fsmI
        simp only [e] at hfI
        rcases hfI.2 with h | h
        · exact h
        · have := hc.rf.exDone0 hsd.1; omega
      exact ht.wrOld hpdg _ h4
    · exact ht.wrZq e
  · -- gnt'
    rw [step_fsm]
    intro hn j hj
    have hfacts : (s.bms[j]!).fsm = .refresh ∧ ok (m.act j) (c.bm.tRAS.getD 0) = true ∧ ok (m.wr j) c.bm.twtp = true := by
      rcases (mux_next_refresh c s ins).mp hn with ⟨_, hgo⟩ | ⟨hr', _⟩
      · have hall := goRefresh_all c s ins hgo
        refine ⟨hall j hj, ?_⟩
        apply (hbmstep j hj).2
        rw [gnt_indep]
        unfold goRefreshOf reqsOf at hgo
        rw [all_map_range] at hgo
        exact hgo j hj
      · exact ⟨hc.muxRef hr' j hj, ht.gnt hr' j hj⟩
    obtain ⟨e1, e2, _⟩ := hage j hj hfacts.1
    rw [e1, e2]
    exact ⟨ok_tick _ _ hfacts.2.1, ok_tick _ _ hfacts.2.2⟩

theorem tinv_init (c : Controller.Cfg) (hwf : WF3 c) : TInv c (init c) g0 (St.init (reqOf c)) := by
  have hb : ∀ i, i < c.nbm → (init c).bms[i]! = BankMachine.State.init c.bm := by
    intro i hi
    simp only [init]
    rw [getElem!_pos _ _ (by simpa using hi)]
    simp
  refine ⟨minv_init c, ?_, RfTiming.rtinv_init c.rf, ?_, ?_, ?_, ?_⟩
  · intro j hj
    rw [hb j hj]
    refine ⟨txage_init _, txage_init _, txage_init _, by simp [agesOf, St.init], ?_⟩
    simp [BmTiming.FsmI, BankMachine.State.init, agesOf, St.init]
  · intro h; simp [g0] at h
  · intro h; simp [g0] at h
  · intro h; simp [init, Refresher.init] at h
  · intro h; simp [init] at h

end CtlTiming
