import LitedramVerif.Model.AddrMap
import LitedramVerif.Proofs.NatBits
import LitedramVerif.Props.C06
