"""Harness-side compatibility shims for the installed LiteX (2024.12) / Python 3.12 (DESIGN.md §3.6).
They change how CSR objects are *named and elaborated*, not any logic of /repo."""
import itertools

_done = False
_counter = itertools.count()


def install():
    global _done
    if _done:
        return
    _done = True
    import litex.soc.interconnect.csr as csr
    orig = csr.get_obj_var_name

    def safe_name(override=None, default=None):
        if override:
            return override
        try:
            n = orig(override, default)
            if n is not None:
                return n
        except Exception:
            pass
        return "csr%d" % next(_counter)
    csr.get_obj_var_name = safe_name
    # litedram uses CSR.wr_stb / rd_stb (newer LiteX); this LiteX calls them re / we
    if not hasattr(csr.CSR, "_verif_patched"):
        init = csr.CSR.__init__

        def __init__(self, *a, **k):
            init(self, *a, **k)
            if not hasattr(self, "wr_stb"):
                self.wr_stb = self.re
            if not hasattr(self, "rd_stb"):
                self.rd_stb = self.we
        csr.CSR.__init__ = __init__
        csr.CSR._verif_patched = True


def finalize_csrs(dut):
    """Elaborate CSRStorage/CSRStatus field logic the way a CSRBank would, so their .storage/.status
    signals are driven; returns the list of CSR objects."""
    csrs = dut.get_csrs()
    for c in csrs:
        if hasattr(c, "finalize") and not getattr(c, "finalized", False):
            try:
                c.finalize(32, "big")
            except TypeError:
                c.finalize(32)
        if hasattr(c, "get_fragment"):
            dut.submodules += c
    return csrs
