"""Shared machinery of the /verif checks: Lean build + audit, driver I/O, sharding, verdict,
evidence and replay files.  Python >= 3.8, standard library only (the harnesses import migen)."""
import os, sys, re, json, time, fcntl, subprocess, tempfile, hashlib, traceback, random
from concurrent.futures import ProcessPoolExecutor

VERIF = os.path.dirname(os.path.dirname(os.path.abspath(__file__)))
REPO = os.environ.get("LITEDRAM_REPO", "/repo")
LEAN = os.path.join(VERIF, "lean")
DRV = os.path.join(LEAN, ".lake", "build", "bin", "drv")
ALLOWED_AXIOMS = {"propext", "Classical.choice", "Quot.sound"}
FORBIDDEN = re.compile(r"\bsorry\b|\badmit\b|^\s*axiom\s|native_decide|bv_decide|implemented_by|\bunsafe\s|maxHeartbeats\s+0\b", re.M)
NCPU = int(os.environ.get("VERIF_JOBS", os.cpu_count() or 4))

os.environ.setdefault("LITEDRAM_VERIF", "1")      # hooks guard (MANIFEST.hooks.guard)
if REPO not in sys.path:
    sys.path.insert(0, REPO)


def sh(cmd, cwd=None, timeout=None, input=None):
    p = subprocess.run(cmd, cwd=cwd, shell=isinstance(cmd, str), stdout=subprocess.PIPE,
                       stderr=subprocess.STDOUT, text=True, timeout=timeout, input=input)
    return p.returncode, p.stdout


class _Lock:
    def __init__(self, path):
        self.path = path
    def __enter__(self):
        self.f = open(self.path, "w")
        fcntl.flock(self.f, fcntl.LOCK_EX)
    def __exit__(self, *a):
        fcntl.flock(self.f, fcntl.LOCK_UN)
        self.f.close()


def lake_lock():
    return _Lock(os.path.join(LEAN, ".lake.lock"))


def write_if_changed(path, text):
    try:
        if open(path).read() == text:
            return False
    except FileNotFoundError:
        pass
    os.makedirs(os.path.dirname(path), exist_ok=True)
    tmp = path + ".tmp%d" % os.getpid()
    with open(tmp, "w") as f:
        f.write(text)
    os.replace(tmp, path)
    return True


def lean_build(targets):
    """lake build of the given targets. Returns (ok, log)."""
    with lake_lock():
        rc, out = sh(["lake", "build"] + list(targets), cwd=LEAN, timeout=3000)
    return rc == 0, out


def strip_lean_comments(src):
    # remove /- ... -/ (nested) and -- ... comments
    out, i, depth, n = [], 0, 0, len(src)
    while i < n:
        if src.startswith("/-", i):
            depth += 1; i += 2; continue
        if depth and src.startswith("-/", i):
            depth -= 1; i += 2; continue
        if depth:
            if src[i] == "\n":
                out.append("\n")
            i += 1; continue
        if src.startswith("--", i):
            while i < n and src[i] != "\n":
                i += 1
            continue
        out.append(src[i]); i += 1
    return "".join(out)


def lean_sources():
    res = []
    for root, dirs, files in os.walk(LEAN):
        if ".lake" in root:
            continue
        for f in files:
            if f.endswith(".lean"):
                res.append(os.path.join(root, f))
    return sorted(res)


def grep_forbidden():
    hits = []
    for p in lean_sources():
        src = strip_lean_comments(open(p).read())
        for m in FORBIDDEN.finditer(src):
            line = src.count("\n", 0, m.start()) + 1
            hits.append("%s:%d: %s" % (os.path.relpath(p, VERIF), line, m.group(0).strip()))
    return hits


def prop_modules(pid):
    """Props modules of a property: Props/<pid>.lean plus Props/<pid>_*.lean (all in namespace <pid>)."""
    d = os.path.join(LEAN, "LitedramVerif", "Props")
    names = [pid] + sorted(f[:-5] for f in os.listdir(d) if f.startswith(pid + "_") and f.endswith(".lean"))
    return names


def prop_theorems(pid):
    """Names of the theorems stated in the property's Props modules (namespace = pid)."""
    res = []
    for mod in prop_modules(pid):
        path = os.path.join(LEAN, "LitedramVerif", "Props", mod + ".lean")
        src = strip_lean_comments(open(path).read())
        res += [m.group(1) for m in re.finditer(r"^\s*theorem\s+([A-Za-z0-9_'.!?]+)", src, re.M)]
    return res


def lean_audit(pid):
    """#print axioms for every theorem of Props/<pid>.lean. Returns dict(ok, theorems, axioms, problems)."""
    names = prop_theorems(pid)
    problems = list(grep_forbidden())
    src = "".join("import LitedramVerif.Props.%s\n" % m for m in prop_modules(pid)) + "".join("#print axioms %s.%s\n" % (pid, n) for n in names)
    with tempfile.NamedTemporaryFile("w", suffix=".lean", dir=LEAN, delete=False, prefix=".audit_") as f:
        f.write(src); tmp = f.name
    try:
        rc, out = sh(["lake", "env", "lean", tmp], cwd=LEAN, timeout=1200)
    finally:
        os.unlink(tmp)
    axioms = {}
    if rc != 0:
        problems.append("audit file failed to elaborate: " + out[-2000:])
    # output: "'C06.foo' depends on axioms: [propext, Quot.sound]" or "... does not depend on any axioms"
    for m in re.finditer(r"'([^']+)' (?:depends on axioms: \[([^\]]*)\]|does not depend on any axioms)", out, re.S):
        ax = [a.strip() for a in (m.group(2) or "").replace("\n", " ").split(",") if a.strip()]
        axioms[m.group(1)] = ax
        bad = [a for a in ax if a not in ALLOWED_AXIOMS]
        if bad:
            problems.append("theorem %s uses non-standard axioms %s" % (m.group(1), bad))
    missing = [n for n in names if "%s.%s" % (pid, n) not in axioms]
    if missing:
        problems.append("no axiom report for: %s" % missing)
    if not names:
        problems.append("no theorems found in Props/%s.lean" % pid)
    return dict(ok=not problems, theorems=names, axioms=axioms, problems=problems)


def run_driver(model, lines, timeout=600):
    """Feed lines (list of str) to the native Lean driver; returns list of output lines."""
    p = subprocess.run([DRV, model], input="\n".join(lines) + "\n", stdout=subprocess.PIPE,
                       stderr=subprocess.PIPE, text=True, timeout=timeout)
    if p.returncode != 0:
        raise RuntimeError("driver %s failed: %s" % (model, p.stderr[-500:]))
    return p.stdout.split("\n")[:-1] if p.stdout.endswith("\n") else p.stdout.split("\n")


def pmap(fn, jobs, nproc=None):
    """Run fn over jobs in worker processes (fn must be a module-level function)."""
    nproc = nproc or NCPU
    if nproc <= 1 or len(jobs) <= 1:
        return [fn(j) for j in jobs]
    with ProcessPoolExecutor(max_workers=min(nproc, len(jobs))) as ex:
        return list(ex.map(fn, jobs))


class Result:
    """What a harness reports back."""
    def __init__(self):
        self.mismatches = []      # correspondence breaks: dict(where=..., input=..., impl=..., model=...)
        self.violations = []      # property violations on the implementation: dict(signature=..., what=..., replay=...)
        self.coverage = {}        # free-form measured counters
        self.samples = []         # a few actual cases
        self.evaluations = 0
        self.distinct = set()
        self.assumptions = []
        self.findings_demonstrated = {}   # known-finding signature -> replay dict (demonstrated this run)

    def merge(self, other):
        self.mismatches += other.mismatches
        self.violations += other.violations
        for k, v in other.coverage.items():
            if isinstance(v, (int, float)) and isinstance(self.coverage.get(k, 0), (int, float)):
                self.coverage[k] = self.coverage.get(k, 0) + v
            elif isinstance(v, dict):
                d = self.coverage.setdefault(k, {})
                for kk, vv in v.items():
                    d[kk] = d.get(kk, 0) + vv
            else:
                self.coverage[k] = v
        self.samples += other.samples[:3]
        self.evaluations += other.evaluations
        self.distinct |= other.distinct
        for a in other.assumptions:
            if a not in self.assumptions:
                self.assumptions.append(a)
        self.findings_demonstrated.update(other.findings_demonstrated)
        return self


def load_known_findings():
    path = os.path.join(VERIF, "known_findings.json")
    try:
        return json.load(open(path))
    except FileNotFoundError:
        return {"findings": [], "fixed": []}


def write_replay(pid, seed, data):
    os.makedirs(os.path.join(VERIF, "replays"), exist_ok=True)
    path = os.path.join(VERIF, "replays", "%s-%d.json" % (pid, seed))
    with open(path, "w") as f:
        json.dump(data, f, indent=1, default=str)
    return path


def write_evidence(pid, tier, seed, coverage, assumptions, wall, violations):
    ev = dict(property_id=pid, tier=tier, seed=seed, level="proof", coverage=coverage,
              assumptions=assumptions, wall_s=round(wall, 2), violations=violations)
    path = os.path.join(VERIF, "evidence", pid + ".json")
    os.makedirs(os.path.dirname(path), exist_ok=True)
    with open(path, "w") as f:
        json.dump(ev, f, indent=1, default=str)
    return path


TRUSTED_BASE = [
    "Lean 4.33 kernel (axioms allowed: propext, Classical.choice, Quot.sound; none other, audited each run)",
    "the specification definitions in lean/LitedramVerif/Spec and in each Props file (oracle)",
    "correspondence harness: co-simulation of the hand-written Lean model against /repo's working tree in Migen's simulator / direct calls (differential testing, coverage as reported)",
    "translators that regenerate lean/LitedramVerif/Generated from /repo",
    "Migen simulator semantics; LiteX library blocks are modelled, not verified",
]
