"""Translators: regenerate lean/LitedramVerif/Generated/*.lean from /repo's working tree."""
import os, sys
from vlib import core

_REGISTRY = []

def translator(fn):
    _REGISTRY.append(fn)
    return fn

def regen_all():
    changed = []
    for fn in _REGISTRY:
        for path, text in fn():
            if core.write_if_changed(os.path.join(core.LEAN, "LitedramVerif", "Generated", path), text):
                changed.append(path)
    return changed


def _load():
    import importlib
    for m in ("modlib", "lpddr_tables", "init_tables"):
        importlib.import_module("translators." + m)

_load()
