#!/bin/bash
# usage: tools_seed_confirm.sh <worktree> ; confirms a seeded change: demo passes on original, fails with the change,
# suite pass-set with the change equals the baseline's stable_pass. Prints a JSON summary.
WT=$1
cd $WT || exit 2
git diff -- litedram > /tmp/$$.patch
( cd $WT && /venv/bin/python _seed/demo.py > /tmp/$$.demo_changed.log 2>&1 ); RC_CHANGED=$?
# (no `git stash`: the stash is shared by all worktrees of a repository)
git apply -R /tmp/$$.patch
( cd $WT && /venv/bin/python _seed/demo.py > /tmp/$$.demo_orig.log 2>&1 ); RC_ORIG=$?
git apply /tmp/$$.patch
/venv/bin/python -m pytest -q -p no:cacheprovider --timeout=900 --continue-on-collection-errors --junitxml=/tmp/$$.junit.xml > /tmp/$$.suite.log 2>&1
python3 - $$ $RC_ORIG $RC_CHANGED <<'PY'
import sys, json, xml.etree.ElementTree as ET
pid, rc_o, rc_c = sys.argv[1], int(sys.argv[2]), int(sys.argv[3])
base = set(json.load(open('/root/.vp/BASELINE.json'))['stable_pass'])
passed = set()
for tc in ET.parse('/tmp/%s.junit.xml' % pid).getroot().iter('testcase'):
    if not any(c.tag in ('failure', 'error', 'skipped') for c in tc):
        passed.add("%s::%s" % (tc.get('classname'), tc.get('name')))
missing = sorted(base - passed)
print(json.dumps(dict(demo_rc_original=rc_o, demo_rc_changed=rc_c, suite_passed=len(passed), baseline_missing=missing)))
PY
rm -f /tmp/$$.*
